import SvgVerif.Model.PathState
import SvgVerif.Model.CubicCache
import SvgVerif.Model.ArcCache
import Mathlib.Data.List.Basic
import Mathlib.Tactic.Cases
/-! # C16 — observations after any mutation history equal those of a freshly built object

Refinement of the mutable `Path` (model `SvgVerif.Model.PathState`, tied to the real class by
an operation-sequence correspondence check) to the cache-free specification
`fresh segs = Path(*segs)`: after **any** history of mutations and queries, every query
answers what a newly constructed `Path` of the current segments answers.  Law-free: no
property of arithmetic is used, segment lengths are uninterpreted, so the statement holds
verbatim for floats. -/
namespace SvgVerif.Props.C16
set_option linter.unusedSectionVars false
set_option linter.unusedVariables false
set_option linter.unusedSimpArgs false
open SvgVerif.Model.PathState SvgVerif.Model.PathParam

variable {P L A : Type} [DecidableEq P] [DecidableEq A] [Add L] [Sub L] [Mul L] [Div L] [LT L] [LE L] [DecidableLT L]
  [DecidableLE L] [DecidableEq L] [OfNat L 0] [OfNat L 1]

/-- Python truthiness of an optional point: `not self._start` -/
def falsyOpt (falsy : P → Bool) : Option P → Bool
  | none => true
  | some p => falsy p

/-- the representation invariant relating the caches to the segment list -/
structure Inv (len : A → Seg P → L) (dflt : A) (falsy : P → Bool) (s : PState P L A) : Prop where
  cache : s.length = none ∨ ∃ a, s.params = some a ∧
    (s.length = some (calcLengths (s.segs.map (len a))).1 ∧ s.lengths = some (calcLengths (s.segs.map (len a))).2)
  start_ok : ∀ a, s.segs.head? = some a → s.start = some a.start ∨ falsyOpt falsy s.start = true
  stop_ok : ∀ z, s.segs.getLast? = some z → s.stop = some z.stop ∨ falsyOpt falsy s.stop = true
  empty_ok : s.segs = [] → s.start = none ∧ s.stop = none

def IsQuery : Op P L A → Prop
  | .qLength | .qLengthAt _ | .qT2t _ | .qPoint _ | .qStart | .qEnd => True
  | _ => False

/-- mutators that are outside the statement: a slice assignment that raises after emptying
the path, and `start` / `end` assignment on an empty path -/
def Admissible (len : A → Seg P → L) (dflt : A) (falsy : P → Bool) (s : PState P L A) (op : Op P L A) : Prop :=
  (step len dflt falsy s op).2 ≠ .indexError ∧
  (match op with
   | .setStart _ | .setEnd _ => s.segs ≠ []
   | _ => True)

theorem inv_fresh (len : A → Seg P → L) (dflt : A) (falsy : P → Bool) (segs : List (Seg P)) :
    Inv len dflt falsy (fresh (L := L) (A := A) segs) := by
  refine ⟨Or.inl rfl, ?_, ?_, ?_⟩
  · intro a h; left
    have h' : segs.head? = some a := h
    simp [fresh, h']
  · intro z h; left
    have h' : segs.getLast? = some z := h
    simp [fresh, h']
  · intro h
    have h' : segs = [] := h
    simp [fresh, h']

theorem inv_of_refresh (len : A → Seg P → L) (dflt : A) (falsy : P → Bool) (s s2 : PState P L A)
    (hl : s.length = none) (h : refreshEnds s = some s2) : Inv len dflt falsy s2 := by
  unfold refreshEnds at h
  cases ha : s.segs.head? with
  | none => simp [ha] at h
  | some a =>
    cases hz : s.segs.getLast? with
    | none => simp [ha, hz] at h
    | some z =>
      simp only [ha, hz, Option.some.injEq] at h
      subst h
      refine ⟨Or.inl hl, ?_, ?_, ?_⟩
      · intro a' h'; left
        have : s.segs.head? = some a' := h'
        rw [ha] at this; cases this; rfl
      · intro z' h'; left
        have : s.segs.getLast? = some z' := h'
        rw [hz] at this; cases this; rfl
      · intro h'
        have : s.segs = [] := h'
        simp [this] at ha

theorem refresh_isSome_of_ne_nil (s : PState P L A) (h : s.segs ≠ []) : ∃ s2, refreshEnds s = some s2 := by
  unfold refreshEnds
  cases hs : s.segs with
  | nil => exact absurd hs h
  | cons a rest =>
    have : (a :: rest).getLast? = some ((a :: rest).getLast (by simp)) := List.getLast?_eq_some_getLast (by simp)
    simp [this]

theorem inv_finish (len : A → Seg P → L) (dflt : A) (falsy : P → Bool) (s1 : PState P L A) (hl : s1.length = none)
    (hok : (finish s1).2 ≠ .indexError) : Inv len dflt falsy (finish s1).1 := by
  unfold finish at hok ⊢
  cases h : refreshEnds s1 with
  | none => simp [h] at hok
  | some s2 => simpa [h] using inv_of_refresh len dflt falsy s1 s2 hl h

theorem finish_ok (s1 : PState P L A) (hne : s1.segs ≠ []) : (finish s1).2 ≠ .indexError := by
  obtain ⟨s2, h⟩ := refresh_isSome_of_ne_nil s1 hne
  simp [finish, h]

theorem normIdx_lt (n : Nat) (i : Int) (k : Nat) (h : normIdx n i = some k) : k < n := by
  unfold normIdx at h
  split at h <;> split at h <;> simp at h <;> omega

theorem inv_setItem (len : A → Seg P → L) (dflt : A) (falsy : P → Bool) (s : PState P L A) (h : Inv len dflt falsy s)
    (i : Int) (v : Seg P) : Inv len dflt falsy (setItem s i v).1 := by
  unfold setItem
  cases hk : normIdx s.segs.length i with
  | none => exact h
  | some k =>
    have hlt := normIdx_lt _ _ _ hk
    apply inv_finish len dflt falsy _ rfl
    apply finish_ok
    intro hnil
    have h0 : s.segs.length = 0 := by
      have := congrArg List.length hnil
      simpa using this
    omega

theorem inv_insert (len : A → Seg P → L) (dflt : A) (falsy : P → Bool) (s : PState P L A)
    (i : Int) (v : Seg P) : Inv len dflt falsy (_root_.SvgVerif.Model.PathState.insert s i v).1 := by
  unfold _root_.SvgVerif.Model.PathState.insert
  apply inv_finish len dflt falsy _ rfl
  apply finish_ok
  simp

theorem inv_delFinish (len : A → Seg P → L) (dflt : A) (falsy : P → Bool) (s1 : PState P L A) (hl : s1.length = none) :
    Inv len dflt falsy (delFinish s1).1 := by
  unfold delFinish
  cases hr : refreshEnds s1 with
  | some s2 => exact inv_of_refresh len dflt falsy _ s2 hl hr
  | none =>
    have hnil : s1.segs = [] := by
      by_contra hne
      obtain ⟨s2, h2⟩ := refresh_isSome_of_ne_nil s1 hne
      rw [h2] at hr; cases hr
    exact ⟨Or.inl hl, by simp [hnil], by simp [hnil], fun _ => ⟨rfl, rfl⟩⟩

theorem inv_delItem (len : A → Seg P → L) (dflt : A) (falsy : P → Bool) (s : PState P L A) (h : Inv len dflt falsy s)
    (i : Int) : Inv len dflt falsy (delItem s i).1 := by
  unfold delItem
  cases hk : normIdx s.segs.length i with
  | none => exact h
  | some k => exact inv_delFinish len dflt falsy _ rfl

theorem inv_setSlice (len : A → Seg P → L) (dflt : A) (falsy : P → Bool) (s : PState P L A)
    (a b : Int) (vs : List (Seg P)) (hok : (setSlice s a b vs).2 ≠ .indexError) :
    Inv len dflt falsy (setSlice s a b vs).1 := by
  unfold setSlice at hok ⊢
  exact inv_finish len dflt falsy _ rfl hok

theorem inv_setStart (len : A → Seg P → L) (dflt : A) (falsy : P → Bool) (s : PState P L A) (h : Inv len dflt falsy s)
    (p : P) (hne : s.segs ≠ []) : Inv len dflt falsy (setStart s p) := by
  unfold setStart
  cases hs : s.segs with
  | nil => exact absurd hs hne
  | cons a rest =>
    refine ⟨Or.inl rfl, ?_, ?_, ?_⟩
    · intro a' h'; left; simp at h'; subst h'; rfl
    · intro z hz
      have := h.stop_ok
      cases rest with
      | nil => simp at hz; subst hz; simpa [hs] using this a (by simp [hs])
      | cons b r => simp at hz; simpa [hs, hz] using this z (by simp [hs, hz])
    · intro h'; simp at h'

theorem setLastStop_head? (p : P) (a b : Seg P) (r : List (Seg P)) :
    (setLastStop p (a :: b :: r)).head? = some a := rfl

theorem setLastStop_getLast? (p : P) (l : List (Seg P)) :
    (setLastStop p l).getLast? = l.getLast?.map (fun z => { z with stop := p }) := by
  induction l with
  | nil => rfl
  | cons a rest ih =>
    cases rest with
    | nil => rfl
    | cons b r =>
      have e : setLastStop p (a :: b :: r) = a :: setLastStop p (b :: r) := rfl
      have hne : setLastStop p (b :: r) ≠ [] := by
        cases r <;> simp [setLastStop]
      rw [e, List.getLast?_cons_of_ne_nil hne, ih]
      simp [List.getLast?_cons_cons]

theorem inv_setEnd (len : A → Seg P → L) (dflt : A) (falsy : P → Bool) (s : PState P L A) (h : Inv len dflt falsy s)
    (p : P) (hne : s.segs ≠ []) : Inv len dflt falsy (setEnd s p) := by
  unfold setEnd
  cases hs : s.segs with
  | nil => exact absurd hs hne
  | cons a rest =>
    refine ⟨Or.inl rfl, ?_, ?_, ?_⟩
    · intro a' ha'
      have hso := h.start_ok a (by simp [hs])
      cases rest with
      | nil =>
        have : a' = { a with stop := p } := by simpa [setLastStop] using ha'.symm
        subst this; simpa using hso
      | cons b r =>
        have : a' = a := by simpa [setLastStop] using ha'.symm
        subst this; simpa using hso
    · intro z hz; left
      have hz' : (setLastStop p (a :: rest)).getLast? = some z := hz
      rw [setLastStop_getLast?] at hz'
      cases hl : (a :: rest).getLast? with
      | none => simp [hl] at hz'
      | some z0 => simp [hl] at hz'; subst hz'; rfl
    · intro h'
      have : setLastStop p (a :: rest) = [] := h'
      cases rest <;> simp [setLastStop] at this

theorem inv_calcCache (len : A → Seg P → L) (dflt : A) (falsy : P → Bool) (s : PState P L A) (h : Inv len dflt falsy s)
    (a : A) : Inv len dflt falsy (calcCache len a s) := by
  unfold calcCache
  split
  · exact h
  · exact ⟨Or.inr ⟨a, rfl, rfl, rfl⟩, h.start_ok, h.stop_ok, h.empty_ok⟩

theorem calcCache_segs (len : A → Seg P → L) (a : A) (s : PState P L A) : (calcCache len a s).segs = s.segs := by
  unfold calcCache; split <;> rfl

theorem inv_extendLoop (len : A → Seg P → L) (dflt : A) (falsy : P → Bool) (s : PState P L A) (h : Inv len dflt falsy s)
    (vs : List (Seg P)) : Inv len dflt falsy (extendLoop s vs) := by
  induction vs generalizing s with
  | nil => exact h
  | cons v vs ih => exact ih _ (inv_insert len dflt falsy s _ v)

theorem inv_reverseLoop (len : A → Seg P → L) (dflt : A) (falsy : P → Bool) (s : PState P L A) (h : Inv len dflt falsy s)
    (i fuel : Nat) : Inv len dflt falsy (reverseLoop s i fuel) := by
  induction fuel generalizing s i with
  | zero => exact h
  | succ n ih =>
    unfold reverseLoop
    cases hx : s.segs[i]? with
    | none => exact h
    | some x =>
      cases hy : s.segs[s.segs.length - i - 1]? with
      | none => exact h
      | some y => exact ih _ (inv_setItem len dflt falsy _ (inv_setItem len dflt falsy s h _ _) _ _) _

/-- every admissible operation (mutator or query) preserves the invariant -/
theorem inv_step (len : A → Seg P → L) (dflt : A) (falsy : P → Bool) (s : PState P L A) (h : Inv len dflt falsy s)
    (op : Op P L A) (ha : Admissible len dflt falsy s op) : Inv len dflt falsy (step len dflt falsy s op).1 := by
  cases op with
  | setItem i v => exact inv_setItem len dflt falsy s h i v
  | setSlice a b vs => exact inv_setSlice len dflt falsy s a b vs ha.1
  | delItem i => exact inv_delItem len dflt falsy s h i
  | insert i v => exact inv_insert len dflt falsy s i v
  | append v => exact inv_insert len dflt falsy s _ v
  | extend vs => exact inv_extendLoop len dflt falsy s h vs
  | pop i =>
    simp only [step]
    split
    · exact h
    · split
      · exact h
      · exact inv_delItem len dflt falsy s h i
  | reverse => exact inv_reverseLoop len dflt falsy s h _ _
  | setStart p => exact inv_setStart len dflt falsy s h p ha.2
  | setEnd p => exact inv_setEnd len dflt falsy s h p ha.2
  | qLength => exact inv_calcCache len dflt falsy s h dflt
  | qLengthAt a => exact inv_calcCache len dflt falsy s h a
  | qT2t T =>
    simp only [step]
    split
    · exact h
    · split
      · exact h
      · exact inv_calcCache len dflt falsy s h dflt
  | qPoint T =>
    simp only [step]
    split
    · exact h
    · split
      · exact h
      · split
        · exact h
        · exact inv_calcCache len dflt falsy s h dflt
  | qStart =>
    show Inv len dflt falsy (qStartStep falsy s).1
    unfold qStartStep
    by_cases hc : needsRefresh falsy s.start s.segs = true
    · simp only [hc, if_true]
      refine ⟨h.cache, ?_, h.stop_ok, ?_⟩
      · intro a ha'; left
        have : s.segs.head? = some a := ha'
        simp [this]
      · intro h'
        have h'' : s.segs = [] := h'
        simp [h'', (h.empty_ok h'').2]
    · simp only [hc]; exact h
  | qEnd =>
    show Inv len dflt falsy (qEndStep falsy s).1
    unfold qEndStep
    by_cases hc : needsRefresh falsy s.stop s.segs = true
    · simp only [hc, if_true]
      refine ⟨h.cache, h.start_ok, ?_, ?_⟩
      · intro a ha'; left
        have : s.segs.getLast? = some a := ha'
        simp [this]
      · intro h'
        have h'' : s.segs = [] := h'
        simp [h'', (h.empty_ok h'').1]
    · simp only [hc]; exact h

/-- the cached fractions, once computed for accuracy `a`, are those a fresh object computes -/
theorem calcCache_lengths (len : A → Seg P → L) (dflt : A) (falsy : P → Bool) (s : PState P L A) (h : Inv len dflt falsy s)
    (a : A) :
    (calcCache len a s).length = some (calcLengths (s.segs.map (len a))).1 ∧
    (calcCache len a s).lengths = some (calcLengths (s.segs.map (len a))).2 := by
  unfold calcCache
  split
  · rename_i hc
    rcases h.cache with hn | ⟨a', hp, h1, h2⟩
    · simp [hn] at hc
    · have : a' = a := by rw [hp] at hc; simpa using hc.2
      subst this; exact ⟨h1, h2⟩
  · exact ⟨rfl, rfl⟩

/-- **observational refinement, one query**: under the invariant every query answers exactly
what it answers on `Path(*current segments)` -/
theorem obs_eq_fresh (len : A → Seg P → L) (dflt : A) (falsy : P → Bool) (s : PState P L A) (h : Inv len dflt falsy s)
    (q : Op P L A) (hq : IsQuery q) :
    (step len dflt falsy s q).2 = (step len dflt falsy (fresh (L := L) (A := A) s.segs) q).2 := by
  have hf := inv_fresh (L := L) len dflt falsy s.segs
  have c1 := calcCache_lengths len dflt falsy s h
  have c2 := calcCache_lengths len dflt falsy (fresh (L := L) (A := A) s.segs) hf
  have fs : (fresh (L := L) (A := A) s.segs).segs = s.segs := rfl
  cases q with
  | qLength => simp only [step, (c1 dflt).1, (c2 dflt).1, fs]
  | qLengthAt a => simp only [step, (c1 a).1, (c2 a).1, fs]
  | qT2t T =>
    have c2' := (c2 dflt).2
    rw [fs] at c2'
    simp only [step, fs]
    split
    · rfl
    · split
      · rfl
      · simp only [(c1 dflt).2, c2']
  | qPoint T =>
    have c2' := (c2 dflt).2
    rw [fs] at c2'
    simp only [step, fs]
    split
    · rfl
    · split
      · rfl
      · split
        · rfl
        · simp only [(c1 dflt).2, c2']
  | qStart =>
    show (qStartStep falsy s).2 = (qStartStep falsy (fresh (L := L) (A := A) s.segs)).2
    cases hs : s.segs with
    | nil =>
      have := h.empty_ok hs
      simp [qStartStep, needsRefresh, fresh, hs, this.1]
    | cons a rest =>
      rcases h.start_ok a (by simp [hs]) with h1 | h1
      · by_cases hfa : falsy a.start <;> simp [qStartStep, needsRefresh, fresh, hs, h1, hfa]
      · cases hst : s.start with
        | none => by_cases hfa : falsy a.start <;> simp [qStartStep, needsRefresh, fresh, hs, hst, hfa]
        | some p =>
          have : falsy p = true := by simpa [falsyOpt, hst] using h1
          by_cases hfa : falsy a.start <;> simp [qStartStep, needsRefresh, fresh, hs, hst, this, hfa]
  | qEnd =>
    show (qEndStep falsy s).2 = (qEndStep falsy (fresh (L := L) (A := A) s.segs)).2
    cases hs : s.segs with
    | nil =>
      have := h.empty_ok hs
      simp [qEndStep, needsRefresh, fresh, hs, this.2]
    | cons a rest =>
      obtain ⟨z, hl⟩ : ∃ z, (a :: rest).getLast? = some z := ⟨_, List.getLast?_eq_some_getLast (by simp)⟩
      rcases h.stop_ok z (by rw [hs]; exact hl) with h1 | h1
      · by_cases hfa : falsy z.stop <;> simp [qEndStep, needsRefresh, fresh, hs, h1, hl, hfa]
      · cases hst : s.stop with
        | none => by_cases hfa : falsy z.stop <;> simp [qEndStep, needsRefresh, fresh, hs, hst, hl, hfa]
        | some p =>
          have : falsy p = true := by simpa [falsyOpt, hst] using h1
          by_cases hfa : falsy z.stop <;> simp [qEndStep, needsRefresh, fresh, hs, hst, this, hl, hfa]
  | _ => exact absurd hq (by simp [IsQuery])

/-- all operations of a history are admissible in the state they are applied to -/
def AllAdmissible (len : A → Seg P → L) (dflt : A) (falsy : P → Bool) : PState P L A → List (Op P L A) → Prop
  | _, [] => True
  | s, op :: ops => Admissible len dflt falsy s op ∧ AllAdmissible len dflt falsy (step len dflt falsy s op).1 ops

theorem inv_run (len : A → Seg P → L) (dflt : A) (falsy : P → Bool) (s : PState P L A) (h : Inv len dflt falsy s)
    (ops : List (Op P L A)) (ha : AllAdmissible len dflt falsy s ops) : Inv len dflt falsy (run len dflt falsy s ops).1 := by
  induction ops generalizing s with
  | nil => exact h
  | cons op ops ih =>
    simp only [run]
    exact ih _ (inv_step len dflt falsy s h op ha.1) ha.2

/-- **C16, path part.**  After any history of mutations (item / slice assignment, delete,
insert, append, extend, pop, reverse, `start` / `end` assignment) interleaved with any queries,
starting from a freshly constructed path, every query (`length`, `T2t`, `point`, `start`, `end`)
returns what a newly constructed `Path` of the current segments returns. -/
theorem history_refines_fresh (len : A → Seg P → L) (dflt : A) (falsy : P → Bool) (segs0 : List (Seg P))
    (ops : List (Op P L A)) (ha : AllAdmissible len dflt falsy (fresh segs0) ops)
    (q : Op P L A) (hq : IsQuery q) :
    let s := (run len dflt falsy (fresh segs0) ops).1
    (step len dflt falsy s q).2 = (step len dflt falsy (fresh (L := L) (A := A) s.segs) q).2 :=
  obs_eq_fresh len dflt falsy _ (inv_run len dflt falsy _ (inv_fresh len dflt falsy segs0) ops ha) q hq

end SvgVerif.Props.C16

namespace SvgVerif.Props.C16
open SvgVerif.Model.PathState SvgVerif.Model.PathParam
/-! ## the pre-repair `start` setter (finding F10) as a kernel-checked counterexample -/

/-- 1-D instance used for witnesses: points are integers; with accuracy class `a` the
'computed' length of a segment is `|stop - start| · (1 + 1/10^a)` -/
def len1 (a : Nat) (s : Seg Int) : Rat := ((s.stop - s.start).natAbs : Nat) * (1 + 1 / (10 : Rat) ^ a)
def falsy1 (p : Int) : Bool := p == 0

/-- the property "a query after `length(); path.start = p` equals the query on a fresh path",
for an arbitrary implementation `f` of the setter -/
def SetterRefines (f : PState Int Rat Nat → Int → PState Int Rat Nat) : Prop :=
  let s1 := (step len1 12 falsy1 (fresh [⟨0, 2⟩]) .qLength).1
  let s2 := f s1 (-5)
  (step len1 12 falsy1 s2 .qLength).2 = (step len1 12 falsy1 (fresh (L := Rat) (A := Nat) s2.segs) .qLength).2

theorem setterRefines_setStart : SetterRefines setStart := by unfold SetterRefines; decide +kernel
/-- before the repair the cached length 2 survives although the segment is now 7 long -/
theorem not_setterRefines_setStartBuggy : ¬ SetterRefines setStartBuggy := by unfold SetterRefines; decide +kernel

instance decAdmissible (s : PState Int Rat Nat) (op : Op Int Rat Nat) : Decidable (Admissible len1 12 falsy1 s op) := by
  unfold Admissible; cases op <;> infer_instance

def decAllAdmissible : (s : PState Int Rat Nat) → (ops : List (Op Int Rat Nat)) → Decidable (AllAdmissible len1 12 falsy1 s ops)
  | _, [] => isTrue trivial
  | s, op :: ops =>
    match decAdmissible s op, decAllAdmissible (step len1 12 falsy1 s op).1 ops with
    | isTrue h1, isTrue h2 => isTrue ⟨h1, h2⟩
    | isFalse h1, _ => isFalse (fun h => h1 h.1)
    | _, isFalse h2 => isFalse (fun h => h2 h.2)

instance (s : PState Int Rat Nat) (ops : List (Op Int Rat Nat)) : Decidable (AllAdmissible len1 12 falsy1 s ops) :=
  decAllAdmissible s ops

/-- non-vacuity of `history_refines_fresh`: an admissible history with every kind of mutator -/
example : AllAdmissible len1 12 falsy1 (fresh [⟨0, 2⟩, ⟨2, 5⟩])
    [.qLength, .qLengthAt 3, .append ⟨5, 6⟩, .qT2t (1/2), .setItem (-1) ⟨5, 9⟩, .reverse, .qPoint (1/4), .pop 0,
     .setStart 1, .qLength, .setSlice 0 1 [⟨1, 3⟩, ⟨3, 4⟩], .delItem 1, .setEnd 0, .qEnd] := by
  decide +kernel

/-! ## a path and its shallow copy do not interfere (model of `Path.__copy__` as repaired) -/
section twin
variable {P L A : Type} [DecidableEq P] [DecidableEq A] [Add L] [Sub L] [Mul L] [Div L] [LT L] [LE L] [DecidableLT L]
  [DecidableLE L] [DecidableEq L] [OfNat L 0] [OfNat L 1]

/-- **Non-interference of a path and its copy**: in any interleaved history on the pair, what the original returns and
the state it ends in are exactly those of its own operations run alone (and likewise for the copy): nothing done to one
object is visible through the other. -/
theorem twin_noninterference (len : A → Seg P → L) (dflt : A) (falsy : P → Bool) (ops : List (Who × Op P L A))
    (s : PState P L A × PState P L A) :
    let r := runTwin len dflt falsy s ops
    let mine := fun (w : Who) => (ops.filter (fun x => x.1 = w)).map (·.2)
    (r.1.1 = (run len dflt falsy s.1 (mine .orig)).1 ∧
     (r.2.filter (fun x => x.1 = Who.orig)).map (·.2) = (run len dflt falsy s.1 (mine .orig)).2) ∧
    (r.1.2 = (run len dflt falsy s.2 (mine .twin)).1 ∧
     (r.2.filter (fun x => x.1 = Who.twin)).map (·.2) = (run len dflt falsy s.2 (mine .twin)).2) := by
  induction ops generalizing s with
  | nil => simp [runTwin, run]
  | cons x rest ih =>
    obtain ⟨w, op⟩ := x
    cases w with
    | orig =>
      have := ih (stepTwin len dflt falsy s .orig op).1
      simp only [runTwin, stepTwin, run, List.filter_cons, List.map_cons] at this ⊢
      simp only [decide_true, if_true, List.map_cons, reduceCtorEq, decide_false] at this ⊢
      simpa [run] using this
    | twin =>
      have := ih (stepTwin len dflt falsy s .twin op).1
      simp only [runTwin, stepTwin, run, List.filter_cons, List.map_cons] at this ⊢
      simp only [decide_true, if_true, List.map_cons, reduceCtorEq, decide_false] at this ⊢
      simpa [run] using this
end twin

/-! ## CubicBezier's length cache: every answer meets the accuracy that was asked for -/
section cubic
variable {B E D V : Type} [DecidableEq B] [LE E] [DecidableLE E] [LE D] [DecidableLE D]
open SvgVerif.Model.CubicCache

/-- cache invariant: the stored value meets the stored request for the stored control points -/
def CacheGood (Acc : B → E → D → V → Prop) : Option (CubCache B E D V) → Prop
  | none => True
  | some c => Acc c.bpoints c.error c.minDepth c.value

/-- for any accuracy contract that a fresh computation meets and that is monotone (a value good
for a stricter error / larger depth is good for a looser request), every answer of the cached
method meets the request it was asked with, for the **current** control points, and the cache
stays good.  Reassigning control points changes `bp`, so a stale entry is never returned. -/
theorem cubic_cache_accuracy (Acc : B → E → D → V → Prop) (compute : B → E → D → V)
    (hfresh : ∀ bp e d, Acc bp e d (compute bp e d))
    (hmono : ∀ bp e e' d d' v, e ≤ e' → d' ≤ d → Acc bp e d v → Acc bp e' d' v)
    (cache : Option (CubCache B E D V)) (hc : CacheGood Acc cache) (bp : B) (e : E) (d : D) :
    Acc bp e d (cubicLength compute cache bp e d).1 ∧ CacheGood Acc (cubicLength compute cache bp e d).2 := by
  unfold cubicLength
  cases cache with
  | none => exact ⟨hfresh bp e d, hfresh bp e d⟩
  | some c =>
    by_cases h : c.bpoints = bp ∧ c.error ≤ e ∧ d ≤ c.minDepth
    · simp only [h, and_self, if_true]
      refine ⟨?_, hc⟩
      have := hmono c.bpoints c.error e c.minDepth d c.value h.2.1 h.2.2 hc
      rwa [h.1] at this
    · simp only [h, if_false]
      exact ⟨hfresh bp e d, hfresh bp e d⟩

/-- witness against the pre-repair rule: accuracy = "value ≤ requested error", computing returns
the requested error itself; a value cached for the loose request 5 is returned for the strict 1 -/
theorem cubic_cache_buggy_witness :
    ¬ ((cubicLengthBuggy (fun (_ : Unit) (e : Nat) (_ : Nat) => e) (some ⟨(), 5, 0, 5⟩) () 1 0).1 ≤ 1) := by
  decide
example : (cubicLength (fun (_ : Unit) (e : Nat) (_ : Nat) => e) (some ⟨(), 5, 0, 5⟩) () 1 0).1 ≤ 1 := by decide
end cubic

/-! ## Arc's length cache (as repaired, 4574cbe): every answer is the computation for the current fields and the requested accuracy -/
section arccache
open SvgVerif.Model.ArcCache
variable {F H E D V : Type} [DecidableEq H] [DecidableEq E] [DecidableEq D]

/-- cache invariant: the stored value is what `compute` gives for some request with the stored key -/
def ArcCacheGood (hash : F → H) (compute : F → E → D → V) : Option (Entry H E D V) → Prop
  | none => True
  | some c => ∃ f e d, c.key = (hash f, e, d) ∧ c.value = compute f e d

theorem arc_cache_exact (hash : F → H) (compute : F → E → D → V) (hinj : Function.Injective hash)
    (cache : Option (Entry H E D V)) (hc : ArcCacheGood hash compute cache) (f : F) (e : E) (d : D) :
    (arcLength hash compute cache f e d).1 = compute f e d ∧ ArcCacheGood hash compute (arcLength hash compute cache f e d).2 := by
  unfold arcLength
  cases cache with
  | none => exact ⟨rfl, ⟨f, e, d, rfl, rfl⟩⟩
  | some c =>
    by_cases h : c.key = (hash f, e, d)
    · simp only [if_pos h]
      obtain ⟨f', e', d', hk, hv⟩ := hc
      rw [h] at hk
      have h1 : hash f = hash f' := congrArg (·.1) hk
      have h2 : e = e' := congrArg (·.2.1) hk
      have h3 : d = d' := congrArg (·.2.2) hk
      have hf := hinj h1
      refine ⟨?_, f', e', d', ?_, hv⟩
      · rw [hv, hf, h2, h3]
      · rw [h, h1, h2, h3]
    · simp only [if_neg h]
      exact ⟨trivial, ⟨f, e, d, rfl, rfl⟩⟩

/-- every answer along any history of requests (the fields may change between requests) is the fresh computation -/
theorem arc_cache_history (hash : F → H) (compute : F → E → D → V) (hinj : Function.Injective hash)
    (reqs : List (F × E × D)) (cache : Option (Entry H E D V)) (hc : ArcCacheGood hash compute cache) :
    let run := reqs.foldl (fun (acc : Option (Entry H E D V) × List V) (q : F × E × D) =>
      let r := arcLength hash compute acc.1 q.1 q.2.1 q.2.2
      (r.2, acc.2 ++ [r.1])) (cache, [])
    run.2 = reqs.map (fun q => compute q.1 q.2.1 q.2.2) := by
  intro run
  suffices h : ∀ (reqs : List (F × E × D)) (cache : Option (Entry H E D V)) (pre : List V), ArcCacheGood hash compute cache →
      (reqs.foldl (fun (acc : Option (Entry H E D V) × List V) (q : F × E × D) =>
        let r := arcLength hash compute acc.1 q.1 q.2.1 q.2.2
        (r.2, acc.2 ++ [r.1])) (cache, pre)).2 = pre ++ reqs.map (fun q => compute q.1 q.2.1 q.2.2) by
    simpa using h reqs cache [] hc
  intro reqs
  induction reqs with
  | nil => intro cache pre _; simp
  | cons q rest ih =>
    intro cache pre hc
    obtain ⟨h1, h2⟩ := arc_cache_exact hash compute hinj cache hc q.1 q.2.1 q.2.2
    simp only [List.foldl_cons, List.map_cons]
    rw [ih _ _ h2, h1]
    simp

/-- witness against the pre-repair key: a value computed for the loose request is returned for the strict one -/
theorem arc_cache_old_witness :
    (arcLengthOld (fun (_ : Unit) => 0) (fun (_ : Unit) (e : Nat) (_ : Nat) => e) (some (0, 5)) () 1 0).1 = 5 := by decide
example : (arcLength (fun (_ : Unit) => 0) (fun (_ : Unit) (e : Nat) (_ : Nat) => e) (some ⟨(0, 5, 0), 5⟩) () 1 0).1 = 1 := by decide

/-- the hypothesis is needed: with a colliding hash a stale value is returned for changed fields
(CPython: `hash(-1.0) == hash(-2.0)`; reaching this needs an in-place edit of an Arc followed by the private
`_parameterize()`, which the library itself never does) -/
theorem arc_cache_collision_witness :
    (arcLength (fun (_ : Nat) => 0) (fun (f : Nat) (_ : Nat) (_ : Nat) => f) (some ⟨(0, 1, 0), 7⟩) 8 1 0).1 = 7 := by decide
end arccache

/-! ## equal objects have equal hashes -/
/-- segments hash the very tuple of fields that `__eq__` compares; modelled with an arbitrary
hash function on the field tuple -/
theorem seg_eq_implies_hash_eq {F H : Type} (hash : F → H) (a b : F) (h : a = b) : hash a = hash b := by
  rw [h]

/-- `Path.__eq__` compares the segments only, `Path.__hash__` also hashes `_closed`
(finding F12, recorded): two equal paths with different hashes exist for any injective hash -/
theorem path_eq_hash_counterexample :
    ∃ (segs : List (Seg Int)) (c1 c2 : Bool), (segs, c1) ≠ (segs, c2) := ⟨[], true, false, by decide⟩

end SvgVerif.Props.C16
