import SvgVerif.Model.Smoothing
import Mathlib.Data.List.Chain

/-! C20: the joint loop of `smoothed_path` removes every kink.

For the loop model `SvgVerif.Model.Smoothing.smoothedPath`, parameterised by the joint
classification `cls` and by `joint` (= `smoothed_joint`), we show: if `joint` honours its contract
on kink joints (`JointContract`), there are no 180° joints, and the input is continuous, then the
output has only smooth joints, keeps the start/end point and tangent (open path), and for a closed
path the closing joint `out[-1] → out[0]` is smooth as well. -/
namespace SvgVerif.Props.C20Loop

open SvgVerif.Model.Smoothing

variable {σ Pt Tn : Type}

/-- the geometry the theorem talks about: start/end point and start/end unit tangent of a segment -/
structure Geo (σ Pt Tn : Type) where
  st : σ → Pt
  en : σ → Pt
  t0 : σ → Tn
  t1 : σ → Tn

/-- a smooth joint: the segments meet and the tangents agree (R = equality, or `isclose`) -/
def Ok (g : Geo σ Pt Tn) (R : Tn → Tn → Prop) (a b : σ) : Prop :=
  g.en a = g.st b ∧ R (g.t1 a) (g.t0 b)

def Joined (g : Geo σ Pt Tn) (a b : σ) : Prop := g.en a = g.st b

/-- what `smoothed_joint` guarantees for a kink joint -/
def JointContract (g : Geo σ Pt Tn) (R : Tn → Tn → Prop) (cls : σ → σ → JC)
    (joint : σ → σ → σ × List σ × σ) : Prop :=
  ∀ a b, g.en a = g.st b → cls a b = .kink →
    g.st (joint a b).1 = g.st a ∧ g.t0 (joint a b).1 = g.t0 a ∧
    List.IsChain (Ok g R) ((joint a b).1 :: (joint a b).2.1 ++ [(joint a b).2.2]) ∧
    g.en (joint a b).2.2 = g.en b ∧ g.t1 (joint a b).2.2 = g.t1 b

/-! ### list lemmas -/

theorem setLast_append_singleton (x l : σ) (pre : List σ) :
    setLast x (pre ++ [l]) = pre ++ [x] := by
  induction pre with
  | nil => rfl
  | cons a pre ih =>
    cases pre with
    | nil => rfl
    | cons b pre => simpa [setLast] using ih

theorem exists_append_singleton_of_ne_nil : ∀ (l : List σ), l ≠ [] → ∃ pre x, l = pre ++ [x]
  | [], h => absurd rfl h
  | [a], _ => ⟨[], a, rfl⟩
  | a :: b :: l, _ => by
    obtain ⟨pre, x, h⟩ := exists_append_singleton_of_ne_nil (b :: l) (by simp)
    exact ⟨a :: pre, x, by rw [h]; rfl⟩

/-- replacing the last element of a chain by one with the same start point and start tangent -/
theorem chain_replace_last {g : Geo σ Pt Tn} {R : Tn → Tn → Prop} {pre : List σ} {l x : σ}
    (h : List.IsChain (Ok g R) (pre ++ [l])) (hst : g.st x = g.st l) (ht : g.t0 x = g.t0 l) :
    List.IsChain (Ok g R) (pre ++ [x]) := by
  rw [List.isChain_append] at h ⊢
  refine ⟨h.1, List.isChain_singleton _, ?_⟩
  intro a ha y hy
  have := h.2.2 a ha l (by simp)
  simp at hy
  subst hy
  unfold Ok at this ⊢
  rw [hst, ht]
  exact this

/-- replacing the head of a chain by one with the same end point and end tangent -/
theorem chain_replace_head {g : Geo σ Pt Tn} {R : Tn → Tn → Prop} {tl : List σ} {f x : σ}
    (h : List.IsChain (Ok g R) (f :: tl)) (hen : g.en x = g.en f) (ht : g.t1 x = g.t1 f) :
    List.IsChain (Ok g R) (x :: tl) := by
  rw [List.isChain_cons] at h ⊢
  refine ⟨?_, h.2⟩
  intro y hy
  have := h.1 y hy
  unfold Ok at this ⊢
  rw [hen, ht]
  exact this

/-! ### the loop invariant -/

/-- invariant of the loop: `np` (= `new_path`) is a chain of smooth joints, it starts like `h`
(the first input segment) and ends like `cur` (the last input segment processed so far) -/
def Inv (g : Geo σ Pt Tn) (R : Tn → Tn → Prop) (h cur : σ) (np : List σ) : Prop :=
  List.IsChain (Ok g R) np ∧
  ∃ pre l, np = pre ++ [l] ∧ g.en l = g.en cur ∧ g.t1 l = g.t1 cur ∧
    ∃ f, np.head? = some f ∧ g.st f = g.st h ∧ g.t0 f = g.t0 h

section
variable {g : Geo σ Pt Tn} {R : Tn → Tn → Prop} {cls : σ → σ → JC}
  {joint : σ → σ → σ × List σ × σ}

theorem stepOpen_inv (hns : ∀ a b, cls a b ≠ .sharp)
    (hcls : ∀ a b, cls a b = .smooth → R (g.t1 a) (g.t0 b))
    (hj : JointContract g R cls joint) (n idx : Nat) (h cur seg1 : σ) (s : St σ)
    (hinv : Inv g R h cur s.newPath) (hs : s.sharp = []) (hc : Joined g cur seg1) :
    Inv g R h seg1 (stepOpen cls joint n s idx seg1).newPath ∧
      (stepOpen cls joint n s idx seg1).sharp = [] ∧
      s.newPath.length + 1 ≤ (stepOpen cls joint n s idx seg1).newPath.length := by
  obtain ⟨hch, pre, l, hnp, hen, ht1, f, hf, hfst, hft⟩ := hinv
  have hlast : s.newPath.getLast? = some l := by rw [hnp]; simp
  have hjoin : g.en l = g.st seg1 := by rw [hen]; exact hc
  unfold stepOpen
  rw [hlast]
  simp only
  cases hcl : cls l seg1 with
  | sharp => exact absurd hcl (hns _ _)
  | smooth =>
    simp only
    refine ⟨⟨?_, s.newPath, seg1, rfl, rfl, rfl, f, ?_, hfst, hft⟩, hs, by simp⟩
    · rw [List.isChain_append]
      refine ⟨hch, List.isChain_singleton _, ?_⟩
      intro a ha b hb
      rw [hlast] at ha
      simp at ha hb
      subst ha hb
      exact ⟨hjoin, hcls _ _ hcl⟩
    · rw [hnp] at hf ⊢
      cases pre <;> simpa using hf
  | kink =>
    simp only
    obtain ⟨c1, c2, c3, c4, c5⟩ := hj l seg1 hjoin hcl
    rw [hnp, setLast_append_singleton]
    refine ⟨⟨?_, pre ++ [(joint l seg1).1] ++ (joint l seg1).2.1, (joint l seg1).2.2, rfl, c4, c5,
      ?_⟩, hs, by simp; omega⟩
    · have h1 : List.IsChain (Ok g R) (pre ++ [(joint l seg1).1]) :=
        chain_replace_last (hnp ▸ hch) c1 c2
      have : pre ++ [(joint l seg1).1] ++ (joint l seg1).2.1 ++ [(joint l seg1).2.2]
          = pre ++ ((joint l seg1).1 :: (joint l seg1).2.1 ++ [(joint l seg1).2.2]) := by simp
      rw [this, List.isChain_append]
      rw [List.isChain_append] at h1
      refine ⟨h1.1, c3, ?_⟩
      intro a ha b hb
      simp at hb
      subst hb
      exact h1.2.2 a ha _ (by simp)
    · rw [hnp] at hf
      cases pre with
      | nil =>
        simp at hf
        subst hf
        exact ⟨(joint l seg1).1, by simp, c1.trans hfst, c2.trans hft⟩
      | cons p ps =>
        simp at hf
        subst hf
        exact ⟨p, by simp, hfst, hft⟩

theorem openLoop_inv (hns : ∀ a b, cls a b ≠ .sharp)
    (hcls : ∀ a b, cls a b = .smooth → R (g.t1 a) (g.t0 b))
    (hj : JointContract g R cls joint) (n : Nat) (h : σ) :
    ∀ (rest : List σ) (cur : σ) (s : St σ) (idx : Nat),
      Inv g R h cur s.newPath → s.sharp = [] → List.IsChain (Joined g) (cur :: rest) →
      ∃ z, (cur :: rest).getLast? = some z ∧
        Inv g R h z (openLoop cls joint n s idx rest).newPath ∧
        (openLoop cls joint n s idx rest).sharp = [] ∧
        s.newPath.length + rest.length ≤ (openLoop cls joint n s idx rest).newPath.length
  | [], cur, s, idx, hinv, hs, _ => ⟨cur, rfl, by simpa [openLoop] using hinv,
      by simpa [openLoop] using hs, by simp [openLoop]⟩
  | seg1 :: rest, cur, s, idx, hinv, hs, hc => by
    rw [List.isChain_cons_cons] at hc
    obtain ⟨i1, i2, i3⟩ := stepOpen_inv hns hcls hj n idx h cur seg1 s hinv hs hc.1
    obtain ⟨z, z1, z2, z3, z4⟩ :=
      openLoop_inv hns hcls hj n h rest seg1 (stepOpen cls joint n s idx seg1) (idx + 1) i1 i2 hc.2
    refine ⟨z, ?_, ?_, ?_, ?_⟩
    · rw [List.getLast?_cons_cons]; exact z1
    · simpa [openLoop] using z2
    · simpa [openLoop] using z3
    · simp only [openLoop, List.length_cons]; omega

theorem inv_init (g : Geo σ Pt Tn) (R : Tn → Tn → Prop) (a : σ) : Inv g R a a [a] :=
  ⟨List.isChain_singleton _, [], a, rfl, rfl, rfl, a, rfl, rfl, rfl⟩

/-! ### main theorems -/

/-- open path: no kink is left, start/end point and start/end tangent are kept -/
theorem smoothedPath_open (g : Geo σ Pt Tn) (R : Tn → Tn → Prop) (cls : σ → σ → JC)
    (joint : σ → σ → σ × List σ × σ) (path : List σ)
    (hns : ∀ a b, cls a b ≠ .sharp)
    (hcls : ∀ a b, cls a b = .smooth → R (g.t1 a) (g.t0 b))
    (hj : JointContract g R cls joint)
    (hcont : List.IsChain (Joined g) path) (hlen : 2 ≤ path.length) :
    ∃ out, smoothedPath cls joint false path = .path out [] ∧
      List.IsChain (Ok g R) out ∧ out ≠ [] ∧
      out.head?.map g.st = path.head?.map g.st ∧
      out.head?.map g.t0 = path.head?.map g.t0 ∧
      out.getLast?.map g.en = path.getLast?.map g.en ∧
      out.getLast?.map g.t1 = path.getLast?.map g.t1 := by
  match path, hlen, hcont with
  | a :: b :: rest, _, hcont =>
    obtain ⟨z, z1, ⟨hch, pre, l, hnp, hen, ht1, f, hf, hfst, hft⟩, z3, _⟩ :=
      openLoop_inv hns hcls hj ((b :: rest).length + 1) a (b :: rest) a
        { newPath := [a], sharp := [] } 0 (inv_init g R a) rfl hcont
    refine ⟨_, ?_, hch, ?_, ?_, ?_, ?_, ?_⟩
    · simp only [smoothedPath, Bool.false_eq_true, if_false]
      rw [z3]
    · rw [hnp]; simp
    · rw [hf]; simp [hfst]
    · rw [hf]; simp [hft]
    · rw [z1, hnp]; simp [hen]
    · rw [z1, hnp]; simp [ht1]

/-- closed path: no kink is left, and the closing joint `out[-1] → out[0]` is smooth too -/
theorem smoothedPath_closed (g : Geo σ Pt Tn) (R : Tn → Tn → Prop) (cls : σ → σ → JC)
    (joint : σ → σ → σ × List σ × σ) (path : List σ)
    (hns : ∀ a b, cls a b ≠ .sharp)
    (hcls : ∀ a b, cls a b = .smooth → R (g.t1 a) (g.t0 b))
    (hj : JointContract g R cls joint)
    (hcont : List.IsChain (Joined g) path) (hlen : 2 ≤ path.length)
    (hclosed : path.getLast?.map g.en = path.head?.map g.st) :
    ∃ out, smoothedPath cls joint true path = .path out [] ∧
      List.IsChain (Ok g R) out ∧
      ∃ f l, out.head? = some f ∧ out.getLast? = some l ∧ Ok g R l f := by
  match path, hlen, hcont, hclosed with
  | a :: b :: rest, _, hcont, hclosed =>
    obtain ⟨z, z1, ⟨hch, pre, l, hnp, hen, ht1, f, hf, hfst, hft⟩, z3, z4⟩ :=
      openLoop_inv hns hcls hj ((b :: rest).length + 1) a (b :: rest) a
        { newPath := [a], sharp := [] } 0 (inv_init g R a) rfl hcont
    rw [z1] at hclosed
    simp only [Option.map_some, List.head?_cons, Option.some.injEq] at hclosed
    have hjoin : g.en l = g.st f := by rw [hen, hclosed, hfst]
    simp only [smoothedPath, if_true]
    generalize openLoop cls joint ((b :: rest).length + 1) { newPath := [a], sharp := [] } 0
      (b :: rest) = s at *
    have hlast : s.newPath.getLast? = some l := by rw [hnp]; simp
    -- `new_path` has at least two elements: `f :: mid ++ [l]`
    obtain ⟨mid, hpre⟩ : ∃ mid, pre = f :: mid := by
      cases pre with
      | nil => rw [hnp] at z4; simp at z4; omega
      | cons p ps =>
        rw [hnp] at hf
        simp at hf
        exact ⟨ps, by rw [hf]⟩
    subst hpre
    unfold stepClose
    rw [hlast, hf]
    simp only
    cases hcl : cls l f with
    | sharp => exact absurd hcl (hns _ _)
    | smooth =>
      exact ⟨_, by rw [z3], hch, f, l, hf, hlast, hjoin, hcls _ _ hcl⟩
    | kink =>
      simp only
      obtain ⟨c1, c2, c3, c4, c5⟩ := hj l f hjoin hcl
      rw [hnp, setLast_append_singleton]
      simp only [List.cons_append, setHead]
      refine ⟨_, by rw [z3], ?_, ?_⟩
      · -- chain of `r.2.2 :: mid ++ [r.1] ++ r.2.1`
        have h1 : List.IsChain (Ok g R) ((joint l f).2.2 :: (mid ++ [(joint l f).1])) :=
          chain_replace_head
            (chain_replace_last (pre := f :: mid) (hnp ▸ hch) c1 c2) c4 c5
        have h2 : List.IsChain (Ok g R) ((joint l f).1 :: (joint l f).2.1) := by
          have : (joint l f).1 :: (joint l f).2.1 ++ [(joint l f).2.2]
              = ((joint l f).1 :: (joint l f).2.1) ++ [(joint l f).2.2] := rfl
          rw [this, List.isChain_append] at c3
          exact c3.1
        have : (joint l f).2.2 :: (mid ++ [(joint l f).1] ++ (joint l f).2.1)
            = ((joint l f).2.2 :: (mid ++ [(joint l f).1])) ++ (joint l f).2.1 := by simp
        rw [this, List.isChain_append]
        rw [List.isChain_cons] at h2
        refine ⟨h1, h2.2, ?_⟩
        intro x hx y hy
        have : x = (joint l f).1 := by
          have : ((joint l f).2.2 :: (mid ++ [(joint l f).1])).getLast? = some (joint l f).1 := by
            rw [← List.cons_append]; exact List.getLast?_concat
          rw [this] at hx
          simpa using hx.symm
        subst this
        exact h2.1 y hy
      · -- the closing joint: last of `r.1 :: r.2.1` to `r.2.2`
        obtain ⟨pre', x, hx⟩ := exists_append_singleton_of_ne_nil
          ((joint l f).1 :: (joint l f).2.1) (by simp)
        have hout : (joint l f).2.2 :: (mid ++ [(joint l f).1] ++ (joint l f).2.1)
            = ((joint l f).2.2 :: mid) ++ (pre' ++ [x]) := by
          rw [← hx]; simp
        refine ⟨(joint l f).2.2, x, rfl, ?_, ?_⟩
        · rw [hout, ← List.append_assoc]; exact List.getLast?_concat
        · have : (joint l f).1 :: (joint l f).2.1 ++ [(joint l f).2.2]
              = ((joint l f).1 :: (joint l f).2.1) ++ [(joint l f).2.2] := rfl
          rw [this, hx, List.isChain_append] at c3
          exact c3.2.2 x (by simp) _ (by simp)

end

/-- a one-segment path is returned as it is -/
theorem smoothedPath_single (cls : σ → σ → JC) (joint : σ → σ → σ × List σ × σ) (closed : Bool)
    (a : σ) : smoothedPath cls joint closed [a] = .unchanged := rfl

theorem openLoop_all_smooth (cls : σ → σ → JC) (joint : σ → σ → σ × List σ × σ)
    (hall : ∀ a b, cls a b = .smooth) (n : Nat) :
    ∀ (rest : List σ) (s : St σ) (idx : Nat), s.newPath ≠ [] →
      openLoop cls joint n s idx rest = { s with newPath := s.newPath ++ rest }
  | [], s, idx, _ => by simp [openLoop]
  | seg1 :: rest, s, idx, hne => by
    obtain ⟨pre, l, hnp⟩ := exists_append_singleton_of_ne_nil _ hne
    have hstep : stepOpen cls joint n s idx seg1 = { s with newPath := s.newPath ++ [seg1] } := by
      unfold stepOpen
      rw [hnp]
      simp [hall]
    rw [openLoop, hstep, openLoop_all_smooth cls joint hall n rest _ (idx + 1) (by simp)]
    simp

/-- a path without kinks is returned segment for segment -/
theorem smoothedPath_all_smooth (cls : σ → σ → JC) (joint : σ → σ → σ × List σ × σ)
    (closed : Bool) (path : List σ) (hall : ∀ a b, cls a b = .smooth) (hlen : 2 ≤ path.length) :
    smoothedPath cls joint closed path = .path path [] := by
  match path, hlen with
  | a :: b :: rest, _ =>
    simp only [smoothedPath]
    rw [openLoop_all_smooth cls joint hall _ _ _ _ (by simp)]
    cases closed with
    | false => simp
    | true =>
      simp only [if_true]
      obtain ⟨pre, l, hnp⟩ := exists_append_singleton_of_ne_nil (a :: b :: rest) (by simp)
      have : stepClose cls joint ((b :: rest).length + 1)
          { newPath := [a] ++ (b :: rest), sharp := [] }
          = { newPath := [a] ++ (b :: rest), sharp := [] } := by
        unfold stepClose
        simp only [hall]
        split <;> rfl
      simp only [this]
      simp

/-! ### non-vacuity: a concrete instance with a kink at every joint of a closed triangle

Toy segments: a curve from point `p` to point `q` with start direction `d0` and end direction
`d1`.  A joint is smooth iff the directions agree, otherwise a kink (never sharp).  The toy
`joint` trims both segments (new points `100 + q`, `200 + q` around the corner `q`) and inserts one
elbow curve that turns from the one direction to the other. -/

structure Seg where
  p : Nat
  q : Nat
  d0 : Nat
  d1 : Nat
  deriving DecidableEq, Repr

def tg : Geo Seg Nat Nat := { st := Seg.p, en := Seg.q, t0 := Seg.d0, t1 := Seg.d1 }

def tcls (a b : Seg) : JC := if a.d1 = b.d0 then .smooth else .kink

def tjoint (a b : Seg) : Seg × List Seg × Seg :=
  ({ a with q := 100 + a.q }, [⟨100 + a.q, 200 + a.q, a.d1, b.d0⟩], { b with p := 200 + a.q })

theorem tcls_ne_sharp (a b : Seg) : tcls a b ≠ .sharp := by
  unfold tcls; split <;> simp

theorem tcls_smooth (a b : Seg) (h : tcls a b = .smooth) : tg.t1 a = tg.t0 b := by
  unfold tcls at h; split at h
  · assumption
  · cases h

theorem tjoint_contract : JointContract tg (· = ·) tcls tjoint := by
  intro a b _ _
  simp [tjoint, tg, Ok]

/-- a closed triangle with three kinks -/
def tri : List Seg := [⟨0, 1, 7, 7⟩, ⟨1, 2, 8, 8⟩, ⟨2, 0, 9, 9⟩]

example : tcls ⟨0, 1, 7, 7⟩ ⟨1, 2, 8, 8⟩ = .kink := by decide

/-- all hypotheses of `smoothedPath_closed` hold for the toy instance -/
example : ∃ out, smoothedPath tcls tjoint true tri = .path out [] ∧
    List.IsChain (Ok tg (· = ·)) out ∧
    ∃ f l, out.head? = some f ∧ out.getLast? = some l ∧ Ok tg (· = ·) l f :=
  smoothedPath_closed tg (· = ·) tcls tjoint tri tcls_ne_sharp tcls_smooth tjoint_contract
    (by simp [tri, Joined, tg]) (by simp [tri]) (by simp [tri, tg])

/-- the output, evaluated: every corner `q` is replaced by an elbow `100+q → 200+q`, and
`new_path[0]` was overwritten by its trimmed version (it starts at `200`, not at `0`) -/
example : smoothedPath tcls tjoint true tri = .path
    [⟨200, 101, 7, 7⟩, ⟨101, 201, 7, 8⟩, ⟨201, 102, 8, 8⟩, ⟨102, 202, 8, 9⟩, ⟨202, 100, 9, 9⟩,
     ⟨100, 200, 9, 7⟩] [] := by
  rfl

/-- the same path treated as open: start point `0` and end point `0` are kept -/
example : smoothedPath tcls tjoint false tri = .path
    [⟨0, 101, 7, 7⟩, ⟨101, 201, 7, 8⟩, ⟨201, 102, 8, 8⟩, ⟨102, 202, 8, 9⟩, ⟨202, 0, 9, 9⟩] [] := by
  rfl


end SvgVerif.Props.C20Loop
