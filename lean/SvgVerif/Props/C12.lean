import SvgVerif.Props.C11
import SvgVerif.Props.C11Model
import SvgVerif.Props.C19
import Mathlib.Algebra.Order.Field.Basic
import Mathlib.Tactic.Ring
import Mathlib.Tactic.Linarith
import Mathlib.Tactic.FieldSimp
import Mathlib.Tactic.LinearCombination
/-! # C12 — every transversal crossing is reported, exactly once

What is proved (exact arithmetic):
* Line ∩ Line: the closed form is the ONLY solution (`ll_unique`), so the model returns exactly the crossing when
  there is one inside both segments and nothing otherwise (`lineLine_complete`, `lineLine_none`);
* the hull pre-filter at the top of every Bezier `intersect` loses nothing, for every degree
  (`hull_prefilter_complete`);
* `bezier_by_line_intersections`: a crossing `(t, u)` is reported iff the root oracle returned `t`, each root is
  used once whatever its multiplicity in the oracle's list (`bezierByLine_complete`, `bezierByLine_once`);
  together with C19's theorems on the `polyroots` filter this leaves `np.roots` as the only oracle;
* `Path.intersect`: a hit farther than `tol` from every earlier hit is kept (C11Model.`pathIntersect_keeps`),
  and nothing is ever duplicated by the Path level (`pathIntersect_length_le`).
What is NOT proved: completeness of the subdivision solver `bezier_intersections` (Bezier–Bezier, generic arc
pairs) — it is false on the current tree in two recorded ways (F9 zero-width boxes, F33 duplicates). -/
namespace SvgVerif.Props.C12
set_option linter.unusedVariables false
set_option linter.unusedSimpArgs false
set_option linter.unusedSectionVars false
open SvgVerif SvgVerif.Model.Intersect SvgVerif.Model

section lineline
variable {K : Type} [Field K]

/-- **Uniqueness**: when `denom ≠ 0`, ANY parameters `(s, u)` at which the two lines meet are the closed form's. -/
theorem ll_unique (p0x p0y p1x p1y q0x q0y q1x q1y s u : K)
    (h : Gen.C11.ll_denom p0x p0y p1x p1y q0x q0y q1x q1y ≠ 0)
    (hx : p0x + (p1x - p0x) * s = q0x + (q1x - q0x) * u)
    (hy : p0y + (p1y - p0y) * s = q0y + (q1y - q0y) * u) :
    s = Gen.C11.ll_t1 p0x p0y p1x p1y q0x q0y q1x q1y ∧ u = Gen.C11.ll_t2 p0x p0y p1x p1y q0x q0y q1x q1y := by
  simp only [Gen.C11.ll_denom] at h
  simp only [Gen.C11.ll_t1, Gen.C11.ll_t2]
  obtain ⟨D, hD⟩ : ∃ D, D = (p1x - p0x) * (q0y - q1y) - (p1y - p0y) * (q0x - q1x) := ⟨_, rfl⟩
  rw [← hD] at h ⊢
  constructor
  · rw [eq_div_iff h]
    linear_combination s * hD + (q0y - q1y) * hx - (q0x - q1x) * hy
  · rw [eq_div_iff h]
    linear_combination u * hD + (-(p1y - p0y)) * hx + (p1x - p0x) * hy

end lineline

section order
variable {K : Type} [Field K] [LinearOrder K] [IsStrictOrderedRing K]

/-! ### Python `min`/`max` of a list bound every element -/
theorem foldl_min_le (xs : List K) (m : K) :
    xs.foldl (fun m y => if y < m then y else m) m ≤ m ∧ ∀ y ∈ xs, xs.foldl (fun m y => if y < m then y else m) m ≤ y := by
  induction xs generalizing m with
  | nil => simp
  | cons x xs ih =>
    simp only [List.foldl_cons, List.mem_cons, forall_eq_or_imp]
    by_cases hx : x < m
    · simp only [hx, if_true]
      obtain ⟨h1, h2⟩ := ih x
      exact ⟨by linarith, h1, h2⟩
    · simp only [hx, if_false]
      obtain ⟨h1, h2⟩ := ih m
      exact ⟨h1, by linarith [not_lt.mp hx], h2⟩

theorem foldl_max_ge (xs : List K) (m : K) :
    m ≤ xs.foldl (fun m y => if m < y then y else m) m ∧ ∀ y ∈ xs, y ≤ xs.foldl (fun m y => if m < y then y else m) m := by
  induction xs generalizing m with
  | nil => simp
  | cons x xs ih =>
    simp only [List.foldl_cons, List.mem_cons, forall_eq_or_imp]
    by_cases hx : m < x
    · simp only [hx, if_true]
      obtain ⟨h1, h2⟩ := ih x
      exact ⟨by linarith, h1, h2⟩
    · simp only [hx, if_false]
      obtain ⟨h1, h2⟩ := ih m
      exact ⟨h1, by linarith [not_lt.mp hx], h2⟩

theorem lmin_le (xs : List K) (x : K) (h : x ∈ xs) : lmin xs ≤ x := by
  cases xs with
  | nil => simp at h
  | cons a as =>
    unfold lmin
    rcases List.mem_cons.mp h with rfl | h
    · exact (foldl_min_le as x).1
    · exact (foldl_min_le as a).2 x h

theorem le_lmax (xs : List K) (x : K) (h : x ∈ xs) : x ≤ lmax xs := by
  cases xs with
  | nil => simp at h
  | cons a as =>
    unfold lmax
    rcases List.mem_cons.mp h with rfl | h
    · exact (foldl_max_ge as x).1
    · exact (foldl_max_ge as a).2 x h

/-! ### de Casteljau stays inside the coordinate ranges of the control points (any degree) -/

/-- all points of the list have both coordinates inside the box `[xl, xh] × [yl, yh]` -/
def InBox (xl xh yl yh : K) (pts : List (K × K)) : Prop :=
  ∀ p ∈ pts, xl ≤ p.1 ∧ p.1 ≤ xh ∧ yl ≤ p.2 ∧ p.2 ≤ yh

theorem dcStep_inBox (xl xh yl yh t : K) (ht0 : 0 ≤ t) (ht1 : t ≤ 1) (pts : List (K × K))
    (h : InBox xl xh yl yh pts) : InBox xl xh yl yh (dcStep t pts) := by
  induction pts with
  | nil => intro p hp; simp [dcStep] at hp
  | cons a rest ih =>
    cases rest with
    | nil => intro p hp; simp [dcStep] at hp
    | cons b rest =>
      intro p hp
      simp only [dcStep, List.mem_cons] at hp
      rcases hp with rfl | hp
      · obtain ⟨a1, a2, a3, a4⟩ := h a (by simp)
        obtain ⟨b1, b2, b3, b4⟩ := h b (by simp)
        have h1t : 0 ≤ 1 - t := by linarith
        refine ⟨?_, ?_, ?_, ?_⟩ <;> simp only <;> nlinarith
      · exact ih (fun q hq => h q (by simp [hq])) p (by simpa [dcStep] using hp)

theorem dcStep_length (t : K) (pts : List (K × K)) : (dcStep t pts).length = pts.length - 1 := by
  induction pts with
  | nil => rfl
  | cons a rest ih =>
    cases rest with
    | nil => rfl
    | cons b rest => simp only [dcStep, List.length_cons] at ih ⊢; omega

/-- **Convex-hull property, every degree**: the de Casteljau point of a non-empty control polygon lies in the
coordinate box of the control points. -/
theorem dcPoint_inBox (xl xh yl yh t : K) (ht0 : 0 ≤ t) (ht1 : t ≤ 1) (n : Nat) (pts : List (K × K))
    (hne : pts ≠ []) (hn : pts.length ≤ n + 1) (h : InBox xl xh yl yh pts) :
    xl ≤ (dcPoint t n pts).1 ∧ (dcPoint t n pts).1 ≤ xh ∧ yl ≤ (dcPoint t n pts).2 ∧ (dcPoint t n pts).2 ≤ yh := by
  induction n generalizing pts with
  | zero =>
    cases pts with
    | nil => exact absurd rfl hne
    | cons a rest => simpa [dcPoint] using h a (by simp)
  | succ n ih =>
    cases pts with
    | nil => exact absurd rfl hne
    | cons a rest =>
      cases rest with
      | nil => simpa [dcPoint] using h a (by simp)
      | cons b rest =>
        simp only [dcPoint]
        refine ih (dcStep t (a :: b :: rest)) ?_ ?_ (dcStep_inBox xl xh yl yh t ht0 ht1 _ h)
        · simp [dcStep]
        · rw [dcStep_length]; simp only [List.length_cons] at hn ⊢; omega

theorem inBox_hull (pts : List (K × K)) :
    InBox (lmin (pts.map (·.1))) (lmax (pts.map (·.1))) (lmin (pts.map (·.2))) (lmax (pts.map (·.2))) pts := by
  intro p hp
  exact ⟨lmin_le _ _ (List.mem_map_of_mem hp), le_lmax _ _ (List.mem_map_of_mem hp),
         lmin_le _ _ (List.mem_map_of_mem hp), le_lmax _ _ (List.mem_map_of_mem hp)⟩

/-- **The hull pre-filter loses nothing, for Beziers of every degree**: if the early `return []` fires, the two
curves have no common point at parameters in `[0,1]`. -/
theorem hull_prefilter_complete (sb ob : List (K × K)) (hs : sb ≠ []) (ho : ob ≠ [])
    (h : hullDisjoint sb ob = true) (s u : K) (hs0 : 0 ≤ s) (hs1 : s ≤ 1) (hu0 : 0 ≤ u) (hu1 : u ≤ 1) :
    dcPoint s sb.length sb ≠ dcPoint u ob.length ob := by
  obtain ⟨a1, a2, a3, a4⟩ := dcPoint_inBox _ _ _ _ s hs0 hs1 sb.length sb hs (by omega) (inBox_hull sb)
  obtain ⟨b1, b2, b3, b4⟩ := dcPoint_inBox _ _ _ _ u hu0 hu1 ob.length ob ho (by omega) (inBox_hull ob)
  intro heq
  rw [heq] at a1 a2 a3 a4
  unfold hullDisjoint at h
  simp only [Bool.or_eq_true, decide_eq_true_eq] at h
  rcases h with ((h | h) | h) | h <;> linarith

/-! ### Line ∩ Line: exactly the crossing -/

theorem hullDisjoint_lines_false (p0 p1 q0 q1 : K × K) (s u : K) (hs0 : 0 ≤ s) (hs1 : s ≤ 1) (hu0 : 0 ≤ u) (hu1 : u ≤ 1)
    (hx : p0.1 + (p1.1 - p0.1) * s = q0.1 + (q1.1 - q0.1) * u)
    (hy : p0.2 + (p1.2 - p0.2) * s = q0.2 + (q1.2 - q0.2) * u) :
    hullDisjoint [p0, p1] [q0, q1] = false := by
  by_contra hne
  have h : hullDisjoint [p0, p1] [q0, q1] = true := by simpa using hne
  have := hull_prefilter_complete [p0, p1] [q0, q1] (by simp) (by simp) h s u hs0 hs1 hu0 hu1
  apply this
  simp only [List.length_cons, List.length_nil, dcPoint, dcStep, List.headD_cons]
  ext
  · simp only; linear_combination hx
  · simp only; linear_combination hy

/-- **Line–Line completeness and uniqueness**: if the two segments meet at parameters `(s, u) ∈ [0,1]²` and the
code does not regard them as parallel (`np.isclose(denom, 0)` false, which forces `denom ≠ 0` if it is true at 0),
the model returns exactly `[(s, u)]` — the crossing, once. -/
theorem lineLine_complete (closeZero : K → Bool) (hcz : closeZero 0 = true) (p0 p1 q0 q1 : K × K) (s u : K)
    (hs0 : 0 ≤ s) (hs1 : s ≤ 1) (hu0 : 0 ≤ u) (hu1 : u ≤ 1)
    (hx : p0.1 + (p1.1 - p0.1) * s = q0.1 + (q1.1 - q0.1) * u)
    (hy : p0.2 + (p1.2 - p0.2) * s = q0.2 + (q1.2 - q0.2) * u)
    (hnc : closeZero (llDenom p0 p1 q0 q1) = false) :
    lineLine closeZero p0 p1 q0 q1 = [(s, u)] := by
  have hd : llDenom p0 p1 q0 q1 ≠ 0 := by
    intro h0; rw [h0, hcz] at hnc; exact Bool.noConfusion hnc
  have hb := C11.ll_bridge p0.1 p0.2 p1.1 p1.2 q0.1 q0.2 q1.1 q1.2
  obtain ⟨e1, e2⟩ := ll_unique p0.1 p0.2 p1.1 p1.2 q0.1 q0.2 q1.1 q1.2 s u (by rw [hb.1]; exact hd) hx hy
  rw [hb.2.1] at e1
  rw [hb.2.2] at e2
  unfold lineLine
  rw [hullDisjoint_lines_false p0 p1 q0 q1 s u hs0 hs1 hu0 hu1 hx hy, hnc]
  simp only [Bool.false_eq_true, if_false]
  rw [← e1, ← e2]
  simp [hs0, hs1, hu0, hu1]

/-- … and when the lines' unique meeting point is outside either segment, nothing is reported -/
theorem lineLine_none (closeZero : K → Bool) (hcz : closeZero 0 = true) (p0 p1 q0 q1 : K × K)
    (hno : ∀ s u, 0 ≤ s → s ≤ 1 → 0 ≤ u → u ≤ 1 →
      ¬ (p0.1 + (p1.1 - p0.1) * s = q0.1 + (q1.1 - q0.1) * u ∧ p0.2 + (p1.2 - p0.2) * s = q0.2 + (q1.2 - q0.2) * u)) :
    lineLine closeZero p0 p1 q0 q1 = [] := by
  by_contra hne
  obtain ⟨⟨t1, t2⟩, hmem⟩ := List.exists_mem_of_ne_nil _ hne
  obtain ⟨⟨a, b, c, d⟩, e1, e2⟩ := C11.lineLine_sound closeZero hcz p0 p1 q0 q1 t1 t2 hmem
  exact hno t1 t2 a b c d ⟨e1, e2⟩

/-! ### Bezier ∩ Line -/

/-- **Completeness of `bezier_by_line_intersections` relative to the root oracle, every degree**: if the curve
meets the segment at `curve t = l0 + u·(l1 − l0)` with `0 ≤ u ≤ 1`, and the oracle's list contains `t`, then
`(t, u)` is reported. -/
theorem bezierByLine_complete (curve : K → K × K) (l0 l1 : K × K) (L : K) (roots : List K)
    (hL : 0 < L) (hLsq : L * L = (l1.1 - l0.1) * (l1.1 - l0.1) + (l1.2 - l0.2) * (l1.2 - l0.2))
    (t u : K) (hu0 : 0 ≤ u) (hu1 : u ≤ 1)
    (hx : (curve t).1 = l0.1 + (l1.1 - l0.1) * u) (hy : (curve t).2 = l0.2 + (l1.2 - l0.2) * u)
    (ht : t ∈ roots) :
    (t, u) ∈ bezierByLine curve l0 l1 L roots := by
  have hN : (l1.1 - l0.1) * (l1.1 - l0.1) + (l1.2 - l0.2) * (l1.2 - l0.2) ≠ 0 := by
    rw [← hLsq]; exact (mul_pos hL hL).ne'
  unfold bezierByLine
  rw [List.mem_filterMap]
  refine ⟨t, List.mem_eraseDups.mpr ht, ?_⟩
  obtain ⟨e1, _⟩ := C11.toLineFrame_eq l0 l1 L (curve t) hN
  have hxv : (toLineFrame l0 l1 L (curve t)).1 = L * u := by
    rw [e1, hx, hy, ← hLsq]
    field_simp
    linear_combination (-u) * hLsq
  simp only [hxv]
  have h1 : 0 ≤ L * u := mul_nonneg hL.le hu0
  have h2 : L * u ≤ L := by nlinarith
  simp only [h1, h2, and_self, if_true, Option.some.injEq, Prod.mk.injEq, true_and]
  field_simp

/-- the crossing at a curve parameter `t` makes `t` a root of the imaginary part in the line's frame — so a
complete root oracle returns it -/
theorem crossing_is_root (curve : K → K × K) (l0 l1 : K × K) (L : K)
    (hN : (l1.1 - l0.1) * (l1.1 - l0.1) + (l1.2 - l0.2) * (l1.2 - l0.2) ≠ 0)
    (t u : K) (hx : (curve t).1 = l0.1 + (l1.1 - l0.1) * u) (hy : (curve t).2 = l0.2 + (l1.2 - l0.2) * u) :
    (toLineFrame l0 l1 L (curve t)).2 = 0 := by
  rw [(C11.toLineFrame_eq l0 l1 L (curve t) hN).2, hx, hy]
  ring

end order

/-! ### each root is used once -/
section once
variable {α : Type} [DecidableEq α]

theorem eraseDups_nodup (l : List α) : l.eraseDups.Nodup := by
  induction h : l.length using Nat.strong_induction_on generalizing l with
  | _ n ih =>
    cases l with
    | nil => simp
    | cons a as =>
      rw [List.eraseDups_cons, List.nodup_cons]
      constructor
      · rw [List.mem_eraseDups]
        simp
      · exact ih _ (by subst h; simp only [List.length_cons]; exact Nat.lt_succ_of_le (List.length_filter_le _ _)) _ rfl

end once

section once2
variable {K : Type} [Field K] [LinearOrder K] [IsStrictOrderedRing K]

/-- **Exactly once**: the curve parameters reported by `bezier_by_line_intersections` are pairwise distinct, however
often the root oracle repeats a root. -/
theorem bezierByLine_once (curve : K → K × K) (l0 l1 : K × K) (L : K) (roots : List K) :
    ((bezierByLine curve l0 l1 L roots).map Prod.fst).Nodup := by
  unfold bezierByLine
  have hsub : ((roots.eraseDups.filterMap fun t =>
      if 0 ≤ (toLineFrame l0 l1 L (curve t)).1 ∧ (toLineFrame l0 l1 L (curve t)).1 ≤ L
      then some (t, (toLineFrame l0 l1 L (curve t)).1 / L) else none).map Prod.fst).Sublist roots.eraseDups := by
    induction roots.eraseDups with
    | nil => simp
    | cons a as ih =>
      by_cases hc : 0 ≤ (toLineFrame l0 l1 L (curve a)).1 ∧ (toLineFrame l0 l1 L (curve a)).1 ≤ L
      · rw [List.filterMap_cons, if_pos hc]
        simp only [List.map_cons]
        exact ih.cons₂ a
      · rw [List.filterMap_cons, if_neg hc]
        exact ih.cons a
  exact hsub.nodup (eraseDups_nodup roots)

end once2

end SvgVerif.Props.C12
