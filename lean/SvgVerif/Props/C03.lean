import SvgVerif.Gen.C03
import SvgVerif.Spec.Bernstein
import SvgVerif.Lemmas.PolyCalculus
import Mathlib.Tactic.Ring
import Mathlib.Tactic.FieldSimp
import Mathlib.Algebra.CharZero.Defs
/-! # C03 — Line / QuadraticBezier / CubicBezier `point`, `poly`, `points`, `derivative`
are the Bernstein curve

`Gen.C03` is regenerated on every run by tracing the real methods on opaque ring
elements.  Everything below holds for all control points and all `t` in every field of
characteristic 0 (so over ℂ with complex control points, and over ℝ coordinate-wise);
the calculus statements hold over ℝ and ℂ. -/
namespace SvgVerif.Props.C03
open SvgVerif SvgVerif.Spec

set_option linter.unusedSectionVars false
set_option linter.unusedSimpArgs false
set_option linter.unusedVariables false
set_option linter.unusedTactic false
set_option linter.unreachableTactic false
set_option linter.unnecessarySeqFocus false

variable {K : Type} [Field K] [CharZero K]

macro "list_ring" : tactic =>
  `(tactic| (first | rfl | (simp only [List.cons.injEq, and_true] <;> (repeat' constructor) <;> ring)))

/-! ## point(t) is the Bernstein curve; point(0) = start, point(1) = end -/

theorem line_point (p0 p1 t : K) : Gen.C03.line_point p0 p1 t = bernstein [p0, p1] t := by
  simp [Gen.C03.line_point, bernstein, bernsteinAux, Nat.choose] <;> ring
theorem quad_point (p0 p1 p2 t : K) : Gen.C03.quad_point p0 p1 p2 t = bernstein [p0, p1, p2] t := by
  simp [Gen.C03.quad_point, bernstein, bernsteinAux, Nat.choose] <;> ring
theorem cubic_point (p0 p1 p2 p3 t : K) :
    Gen.C03.cubic_point p0 p1 p2 p3 t = bernstein [p0, p1, p2, p3] t := by
  simp [Gen.C03.cubic_point, bernstein, bernsteinAux, Nat.choose] <;> ring

theorem line_point_zero (p0 p1 : K) : Gen.C03.line_point p0 p1 0 = p0 := by simp [Gen.C03.line_point]
theorem line_point_one (p0 p1 : K) : Gen.C03.line_point p0 p1 1 = p1 := by simp [Gen.C03.line_point]
theorem quad_point_zero (p0 p1 p2 : K) : Gen.C03.quad_point p0 p1 p2 0 = p0 := by simp [Gen.C03.quad_point]
theorem quad_point_one (p0 p1 p2 : K) : Gen.C03.quad_point p0 p1 p2 1 = p2 := by simp [Gen.C03.quad_point]
theorem cubic_point_zero (p0 p1 p2 p3 : K) : Gen.C03.cubic_point p0 p1 p2 p3 0 = p0 := by
  simp [Gen.C03.cubic_point]
theorem cubic_point_one (p0 p1 p2 p3 : K) : Gen.C03.cubic_point p0 p1 p2 p3 1 = p3 := by
  simp [Gen.C03.cubic_point] <;> ring

/-! ## poly(): the coefficient tuple, the poly1d call and points() describe the same curve -/

/-- coefficient lists returned by `poly(return_coeffs=True)` -/
def lineCoeffs (p0 p1 : K) : List K := [Gen.C03.line_poly_0 p0 p1, Gen.C03.line_poly_1 p0 p1]
def quadCoeffs (p0 p1 p2 : K) : List K :=
  [Gen.C03.quad_poly_0 p0 p1 p2, Gen.C03.quad_poly_1 p0 p1 p2, Gen.C03.quad_poly_2 p0 p1 p2]
def cubicCoeffs (p0 p1 p2 p3 : K) : List K :=
  [Gen.C03.cubic_poly_0 p0 p1 p2 p3, Gen.C03.cubic_poly_1 p0 p1 p2 p3,
   Gen.C03.cubic_poly_2 p0 p1 p2 p3, Gen.C03.cubic_poly_3 p0 p1 p2 p3]

theorem line_poly (p0 p1 t : K) : polyEval (lineCoeffs p0 p1) t = bernstein [p0, p1] t := by
  simp [lineCoeffs, Gen.C03.line_poly_0, Gen.C03.line_poly_1, polyEval, bernstein, bernsteinAux, Nat.choose] <;> ring
theorem quad_poly (p0 p1 p2 t : K) : polyEval (quadCoeffs p0 p1 p2) t = bernstein [p0, p1, p2] t := by
  simp [quadCoeffs, Gen.C03.quad_poly_0, Gen.C03.quad_poly_1, Gen.C03.quad_poly_2, polyEval, bernstein,
    bernsteinAux, Nat.choose] <;> ring
theorem cubic_poly (p0 p1 p2 p3 t : K) :
    polyEval (cubicCoeffs p0 p1 p2 p3) t = bernstein [p0, p1, p2, p3] t := by
  simp [cubicCoeffs, Gen.C03.cubic_poly_0, Gen.C03.cubic_poly_1, Gen.C03.cubic_poly_2, Gen.C03.cubic_poly_3,
    polyEval, bernstein, bernsteinAux, Nat.choose] <;> ring

theorem line_poly1d_call (p0 p1 t : K) : Gen.C03.line_poly1d_call p0 p1 t = bernstein [p0, p1] t := by
  simp [Gen.C03.line_poly1d_call, bernstein, bernsteinAux, Nat.choose] <;> ring
theorem quad_poly1d_call (p0 p1 p2 t : K) :
    Gen.C03.quad_poly1d_call p0 p1 p2 t = bernstein [p0, p1, p2] t := by
  simp [Gen.C03.quad_poly1d_call, bernstein, bernsteinAux, Nat.choose] <;> ring
theorem cubic_poly1d_call (p0 p1 p2 p3 t : K) :
    Gen.C03.cubic_poly1d_call p0 p1 p2 p3 t = bernstein [p0, p1, p2, p3] t := by
  simp [Gen.C03.cubic_poly1d_call, bernstein, bernsteinAux, Nat.choose] <;> ring

theorem line_points (p0 p1 t : K) : Gen.C03.line_points p0 p1 t = bernstein [p0, p1] t := by
  simp [Gen.C03.line_points, bernstein, bernsteinAux, Nat.choose] <;> ring
theorem quad_points (p0 p1 p2 t : K) : Gen.C03.quad_points p0 p1 p2 t = bernstein [p0, p1, p2] t := by
  simp [Gen.C03.quad_points, bernstein, bernsteinAux, Nat.choose] <;> ring
theorem cubic_points (p0 p1 p2 p3 t : K) :
    Gen.C03.cubic_points p0 p1 p2 p3 t = bernstein [p0, p1, p2, p3] t := by
  simp [Gen.C03.cubic_points, bernstein, bernsteinAux, Nat.choose] <;> ring

/-- `bez2poly(seg)` returns the same coefficients as `seg.poly(return_coeffs=True)` -/
theorem line_bez2poly (p0 p1 : K) :
    [Gen.C03.line_bez2poly_0 p0 p1, Gen.C03.line_bez2poly_1 p0 p1] = lineCoeffs p0 p1 := by
  simp only [lineCoeffs, Gen.C03.line_bez2poly_0, Gen.C03.line_bez2poly_1, Gen.C03.line_poly_0,
    Gen.C03.line_poly_1] <;> list_ring
theorem quad_bez2poly (p0 p1 p2 : K) :
    [Gen.C03.quad_bez2poly_0 p0 p1 p2, Gen.C03.quad_bez2poly_1 p0 p1 p2, Gen.C03.quad_bez2poly_2 p0 p1 p2]
      = quadCoeffs p0 p1 p2 := by
  simp only [quadCoeffs, Gen.C03.quad_bez2poly_0, Gen.C03.quad_bez2poly_1, Gen.C03.quad_bez2poly_2,
    Gen.C03.quad_poly_0, Gen.C03.quad_poly_1, Gen.C03.quad_poly_2] <;> list_ring
theorem cubic_bez2poly (p0 p1 p2 p3 : K) :
    [Gen.C03.cubic_bez2poly_0 p0 p1 p2 p3, Gen.C03.cubic_bez2poly_1 p0 p1 p2 p3,
     Gen.C03.cubic_bez2poly_2 p0 p1 p2 p3, Gen.C03.cubic_bez2poly_3 p0 p1 p2 p3] = cubicCoeffs p0 p1 p2 p3 := by
  simp only [cubicCoeffs, Gen.C03.cubic_bez2poly_0, Gen.C03.cubic_bez2poly_1, Gen.C03.cubic_bez2poly_2,
    Gen.C03.cubic_bez2poly_3, Gen.C03.cubic_poly_0, Gen.C03.cubic_poly_1, Gen.C03.cubic_poly_2,
    Gen.C03.cubic_poly_3] <;> list_ring

/-! ## control points recovered from the polynomial (poly2bez, bpoints2bezier) -/

theorem line_poly2bez (p0 p1 : K) :
    [Gen.C03.line_poly2bez_0 p0 p1, Gen.C03.line_poly2bez_1 p0 p1] = [p0, p1] ∧
    [Gen.C03.line_poly2bez_seg_0 p0 p1, Gen.C03.line_poly2bez_seg_1 p0 p1] = [p0, p1] ∧
    [Gen.C03.line_bpoints2bezier_0 p0 p1, Gen.C03.line_bpoints2bezier_1 p0 p1] = [p0, p1] := by
  simp only [Gen.C03.line_poly2bez_0, Gen.C03.line_poly2bez_1, Gen.C03.line_poly2bez_seg_0,
    Gen.C03.line_poly2bez_seg_1, Gen.C03.line_bpoints2bezier_0, Gen.C03.line_bpoints2bezier_1]
  refine ⟨?_, ?_, ?_⟩ <;> list_ring
theorem quad_poly2bez (p0 p1 p2 : K) :
    [Gen.C03.quad_poly2bez_0 p0 p1 p2, Gen.C03.quad_poly2bez_1 p0 p1 p2, Gen.C03.quad_poly2bez_2 p0 p1 p2]
      = [p0, p1, p2] ∧
    [Gen.C03.quad_poly2bez_seg_0 p0 p1 p2, Gen.C03.quad_poly2bez_seg_1 p0 p1 p2,
     Gen.C03.quad_poly2bez_seg_2 p0 p1 p2] = [p0, p1, p2] ∧
    [Gen.C03.quad_bpoints2bezier_0 p0 p1 p2, Gen.C03.quad_bpoints2bezier_1 p0 p1 p2,
     Gen.C03.quad_bpoints2bezier_2 p0 p1 p2] = [p0, p1, p2] := by
  simp only [Gen.C03.quad_poly2bez_0, Gen.C03.quad_poly2bez_1, Gen.C03.quad_poly2bez_2,
    Gen.C03.quad_poly2bez_seg_0, Gen.C03.quad_poly2bez_seg_1, Gen.C03.quad_poly2bez_seg_2,
    Gen.C03.quad_bpoints2bezier_0, Gen.C03.quad_bpoints2bezier_1, Gen.C03.quad_bpoints2bezier_2]
  refine ⟨?_, ?_, ?_⟩ <;> list_ring
theorem cubic_poly2bez (p0 p1 p2 p3 : K) :
    [Gen.C03.cubic_poly2bez_0 p0 p1 p2 p3, Gen.C03.cubic_poly2bez_1 p0 p1 p2 p3,
     Gen.C03.cubic_poly2bez_2 p0 p1 p2 p3, Gen.C03.cubic_poly2bez_3 p0 p1 p2 p3] = [p0, p1, p2, p3] ∧
    [Gen.C03.cubic_poly2bez_seg_0 p0 p1 p2 p3, Gen.C03.cubic_poly2bez_seg_1 p0 p1 p2 p3,
     Gen.C03.cubic_poly2bez_seg_2 p0 p1 p2 p3, Gen.C03.cubic_poly2bez_seg_3 p0 p1 p2 p3] = [p0, p1, p2, p3] ∧
    [Gen.C03.cubic_bpoints2bezier_0 p0 p1 p2 p3, Gen.C03.cubic_bpoints2bezier_1 p0 p1 p2 p3,
     Gen.C03.cubic_bpoints2bezier_2 p0 p1 p2 p3, Gen.C03.cubic_bpoints2bezier_3 p0 p1 p2 p3]
      = [p0, p1, p2, p3] := by
  simp only [Gen.C03.cubic_poly2bez_0, Gen.C03.cubic_poly2bez_1, Gen.C03.cubic_poly2bez_2,
    Gen.C03.cubic_poly2bez_3, Gen.C03.cubic_poly2bez_seg_0, Gen.C03.cubic_poly2bez_seg_1,
    Gen.C03.cubic_poly2bez_seg_2, Gen.C03.cubic_poly2bez_seg_3, Gen.C03.cubic_bpoints2bezier_0,
    Gen.C03.cubic_bpoints2bezier_1, Gen.C03.cubic_bpoints2bezier_2, Gen.C03.cubic_bpoints2bezier_3]
  refine ⟨?_, ?_, ?_⟩ <;> list_ring

/-! ## derivative(t, n) is the n-th formal derivative of the curve's polynomial, n = 1..5 -/

macro "deriv_tac" ds:term "," cs:term : tactic =>
  `(tactic| (simp [$ds:term, $cs:term, polyDerivN, polyDeriv, polyEval, Gen.C03.line_poly_0, Gen.C03.line_poly_1,
      Gen.C03.quad_poly_0, Gen.C03.quad_poly_1, Gen.C03.quad_poly_2, Gen.C03.cubic_poly_0,
      Gen.C03.cubic_poly_1, Gen.C03.cubic_poly_2, Gen.C03.cubic_poly_3] <;> ring))

theorem line_derivative_1 (p0 p1 t : K) :
    Gen.C03.line_derivative_1 p0 p1 t = polyEval (polyDerivN 1 (lineCoeffs p0 p1)) t := by
  deriv_tac Gen.C03.line_derivative_1, lineCoeffs
theorem line_derivative_2 (p0 p1 t : K) :
    Gen.C03.line_derivative_2 p0 p1 t = polyEval (polyDerivN 2 (lineCoeffs p0 p1)) t := by
  deriv_tac Gen.C03.line_derivative_2, lineCoeffs
theorem line_derivative_3 (p0 p1 t : K) :
    Gen.C03.line_derivative_3 p0 p1 t = polyEval (polyDerivN 3 (lineCoeffs p0 p1)) t := by
  deriv_tac Gen.C03.line_derivative_3, lineCoeffs
theorem line_derivative_4 (p0 p1 t : K) :
    Gen.C03.line_derivative_4 p0 p1 t = polyEval (polyDerivN 4 (lineCoeffs p0 p1)) t := by
  deriv_tac Gen.C03.line_derivative_4, lineCoeffs
theorem line_derivative_5 (p0 p1 t : K) :
    Gen.C03.line_derivative_5 p0 p1 t = polyEval (polyDerivN 5 (lineCoeffs p0 p1)) t := by
  deriv_tac Gen.C03.line_derivative_5, lineCoeffs

theorem quad_derivative_1 (p0 p1 p2 t : K) :
    Gen.C03.quad_derivative_1 p0 p1 p2 t = polyEval (polyDerivN 1 (quadCoeffs p0 p1 p2)) t := by
  deriv_tac Gen.C03.quad_derivative_1, quadCoeffs
theorem quad_derivative_2 (p0 p1 p2 t : K) :
    Gen.C03.quad_derivative_2 p0 p1 p2 t = polyEval (polyDerivN 2 (quadCoeffs p0 p1 p2)) t := by
  deriv_tac Gen.C03.quad_derivative_2, quadCoeffs
theorem quad_derivative_3 (p0 p1 p2 t : K) :
    Gen.C03.quad_derivative_3 p0 p1 p2 t = polyEval (polyDerivN 3 (quadCoeffs p0 p1 p2)) t := by
  deriv_tac Gen.C03.quad_derivative_3, quadCoeffs
theorem quad_derivative_4 (p0 p1 p2 t : K) :
    Gen.C03.quad_derivative_4 p0 p1 p2 t = polyEval (polyDerivN 4 (quadCoeffs p0 p1 p2)) t := by
  deriv_tac Gen.C03.quad_derivative_4, quadCoeffs
theorem quad_derivative_5 (p0 p1 p2 t : K) :
    Gen.C03.quad_derivative_5 p0 p1 p2 t = polyEval (polyDerivN 5 (quadCoeffs p0 p1 p2)) t := by
  deriv_tac Gen.C03.quad_derivative_5, quadCoeffs

theorem cubic_derivative_1 (p0 p1 p2 p3 t : K) :
    Gen.C03.cubic_derivative_1 p0 p1 p2 p3 t = polyEval (polyDerivN 1 (cubicCoeffs p0 p1 p2 p3)) t := by
  deriv_tac Gen.C03.cubic_derivative_1, cubicCoeffs
theorem cubic_derivative_2 (p0 p1 p2 p3 t : K) :
    Gen.C03.cubic_derivative_2 p0 p1 p2 p3 t = polyEval (polyDerivN 2 (cubicCoeffs p0 p1 p2 p3)) t := by
  deriv_tac Gen.C03.cubic_derivative_2, cubicCoeffs
theorem cubic_derivative_3 (p0 p1 p2 p3 t : K) :
    Gen.C03.cubic_derivative_3 p0 p1 p2 p3 t = polyEval (polyDerivN 3 (cubicCoeffs p0 p1 p2 p3)) t := by
  deriv_tac Gen.C03.cubic_derivative_3, cubicCoeffs
theorem cubic_derivative_4 (p0 p1 p2 p3 t : K) :
    Gen.C03.cubic_derivative_4 p0 p1 p2 p3 t = polyEval (polyDerivN 4 (cubicCoeffs p0 p1 p2 p3)) t := by
  deriv_tac Gen.C03.cubic_derivative_4, cubicCoeffs
theorem cubic_derivative_5 (p0 p1 p2 p3 t : K) :
    Gen.C03.cubic_derivative_5 p0 p1 p2 p3 t = polyEval (polyDerivN 5 (cubicCoeffs p0 p1 p2 p3)) t := by
  deriv_tac Gen.C03.cubic_derivative_5, cubicCoeffs


/-! ## coincident control points (traced as their own cases: the same ring element is passed
twice, so every `==` between control points is decided *true* on these traces).  The curve
built by `poly2bez` / `bpoints2bezier` must still be the same parametrised curve. -/
theorem cubic_d0012 (q0 q1 q2 t : K) :
    Gen.C03.cubic_d0012_point q0 q1 q2 t = bernstein [q0, q0, q1, q2] t ∧
    Gen.C03.cubic_d0012_poly1d_call q0 q1 q2 t = bernstein [q0, q0, q1, q2] t ∧
    Gen.C03.cubic_d0012_points q0 q1 q2 t = bernstein [q0, q0, q1, q2] t ∧
    Gen.C03.cubic_d0012_poly2bez_point q0 q1 q2 t = bernstein [q0, q0, q1, q2] t ∧
    Gen.C03.cubic_d0012_bpoints2bezier_point q0 q1 q2 t = bernstein [q0, q0, q1, q2] t := by
  simp only [Gen.C03.cubic_d0012_point, Gen.C03.cubic_d0012_poly1d_call, Gen.C03.cubic_d0012_points, Gen.C03.cubic_d0012_poly2bez_point, Gen.C03.cubic_d0012_bpoints2bezier_point]
  refine ⟨?_, ?_, ?_, ?_, ?_⟩ <;> (simp [bernstein, bernsteinAux, Nat.choose] <;> ring)

theorem cubic_d0012_derivative (q0 q1 q2 t : K) :
    Gen.C03.cubic_d0012_derivative_1 q0 q1 q2 t = polyEval (polyDerivN 1 (cubicCoeffs q0 q0 q1 q2)) t := by
  deriv_tac Gen.C03.cubic_d0012_derivative_1, cubicCoeffs

theorem cubic_d0122 (q0 q1 q2 t : K) :
    Gen.C03.cubic_d0122_point q0 q1 q2 t = bernstein [q0, q1, q2, q2] t ∧
    Gen.C03.cubic_d0122_poly1d_call q0 q1 q2 t = bernstein [q0, q1, q2, q2] t ∧
    Gen.C03.cubic_d0122_points q0 q1 q2 t = bernstein [q0, q1, q2, q2] t ∧
    Gen.C03.cubic_d0122_poly2bez_point q0 q1 q2 t = bernstein [q0, q1, q2, q2] t ∧
    Gen.C03.cubic_d0122_bpoints2bezier_point q0 q1 q2 t = bernstein [q0, q1, q2, q2] t := by
  simp only [Gen.C03.cubic_d0122_point, Gen.C03.cubic_d0122_poly1d_call, Gen.C03.cubic_d0122_points, Gen.C03.cubic_d0122_poly2bez_point, Gen.C03.cubic_d0122_bpoints2bezier_point]
  refine ⟨?_, ?_, ?_, ?_, ?_⟩ <;> (simp [bernstein, bernsteinAux, Nat.choose] <;> ring)

theorem cubic_d0122_derivative (q0 q1 q2 t : K) :
    Gen.C03.cubic_d0122_derivative_1 q0 q1 q2 t = polyEval (polyDerivN 1 (cubicCoeffs q0 q1 q2 q2)) t := by
  deriv_tac Gen.C03.cubic_d0122_derivative_1, cubicCoeffs

theorem cubic_d0011 (q0 q1 t : K) :
    Gen.C03.cubic_d0011_point q0 q1 t = bernstein [q0, q0, q1, q1] t ∧
    Gen.C03.cubic_d0011_poly1d_call q0 q1 t = bernstein [q0, q0, q1, q1] t ∧
    Gen.C03.cubic_d0011_points q0 q1 t = bernstein [q0, q0, q1, q1] t ∧
    Gen.C03.cubic_d0011_poly2bez_point q0 q1 t = bernstein [q0, q0, q1, q1] t ∧
    Gen.C03.cubic_d0011_bpoints2bezier_point q0 q1 t = bernstein [q0, q0, q1, q1] t := by
  simp only [Gen.C03.cubic_d0011_point, Gen.C03.cubic_d0011_poly1d_call, Gen.C03.cubic_d0011_points, Gen.C03.cubic_d0011_poly2bez_point, Gen.C03.cubic_d0011_bpoints2bezier_point]
  refine ⟨?_, ?_, ?_, ?_, ?_⟩ <;> (simp [bernstein, bernsteinAux, Nat.choose] <;> ring)

theorem cubic_d0011_derivative (q0 q1 t : K) :
    Gen.C03.cubic_d0011_derivative_1 q0 q1 t = polyEval (polyDerivN 1 (cubicCoeffs q0 q0 q1 q1)) t := by
  deriv_tac Gen.C03.cubic_d0011_derivative_1, cubicCoeffs

theorem cubic_d0112 (q0 q1 q2 t : K) :
    Gen.C03.cubic_d0112_point q0 q1 q2 t = bernstein [q0, q1, q1, q2] t ∧
    Gen.C03.cubic_d0112_poly1d_call q0 q1 q2 t = bernstein [q0, q1, q1, q2] t ∧
    Gen.C03.cubic_d0112_points q0 q1 q2 t = bernstein [q0, q1, q1, q2] t ∧
    Gen.C03.cubic_d0112_poly2bez_point q0 q1 q2 t = bernstein [q0, q1, q1, q2] t ∧
    Gen.C03.cubic_d0112_bpoints2bezier_point q0 q1 q2 t = bernstein [q0, q1, q1, q2] t := by
  simp only [Gen.C03.cubic_d0112_point, Gen.C03.cubic_d0112_poly1d_call, Gen.C03.cubic_d0112_points, Gen.C03.cubic_d0112_poly2bez_point, Gen.C03.cubic_d0112_bpoints2bezier_point]
  refine ⟨?_, ?_, ?_, ?_, ?_⟩ <;> (simp [bernstein, bernsteinAux, Nat.choose] <;> ring)

theorem cubic_d0112_derivative (q0 q1 q2 t : K) :
    Gen.C03.cubic_d0112_derivative_1 q0 q1 q2 t = polyEval (polyDerivN 1 (cubicCoeffs q0 q1 q1 q2)) t := by
  deriv_tac Gen.C03.cubic_d0112_derivative_1, cubicCoeffs

theorem cubic_d0110 (q0 q1 t : K) :
    Gen.C03.cubic_d0110_point q0 q1 t = bernstein [q0, q1, q1, q0] t ∧
    Gen.C03.cubic_d0110_poly1d_call q0 q1 t = bernstein [q0, q1, q1, q0] t ∧
    Gen.C03.cubic_d0110_points q0 q1 t = bernstein [q0, q1, q1, q0] t ∧
    Gen.C03.cubic_d0110_poly2bez_point q0 q1 t = bernstein [q0, q1, q1, q0] t ∧
    Gen.C03.cubic_d0110_bpoints2bezier_point q0 q1 t = bernstein [q0, q1, q1, q0] t := by
  simp only [Gen.C03.cubic_d0110_point, Gen.C03.cubic_d0110_poly1d_call, Gen.C03.cubic_d0110_points, Gen.C03.cubic_d0110_poly2bez_point, Gen.C03.cubic_d0110_bpoints2bezier_point]
  refine ⟨?_, ?_, ?_, ?_, ?_⟩ <;> (simp [bernstein, bernsteinAux, Nat.choose] <;> ring)

theorem cubic_d0110_derivative (q0 q1 t : K) :
    Gen.C03.cubic_d0110_derivative_1 q0 q1 t = polyEval (polyDerivN 1 (cubicCoeffs q0 q1 q1 q0)) t := by
  deriv_tac Gen.C03.cubic_d0110_derivative_1, cubicCoeffs

theorem cubic_d0120 (q0 q1 q2 t : K) :
    Gen.C03.cubic_d0120_point q0 q1 q2 t = bernstein [q0, q1, q2, q0] t ∧
    Gen.C03.cubic_d0120_poly1d_call q0 q1 q2 t = bernstein [q0, q1, q2, q0] t ∧
    Gen.C03.cubic_d0120_points q0 q1 q2 t = bernstein [q0, q1, q2, q0] t ∧
    Gen.C03.cubic_d0120_poly2bez_point q0 q1 q2 t = bernstein [q0, q1, q2, q0] t ∧
    Gen.C03.cubic_d0120_bpoints2bezier_point q0 q1 q2 t = bernstein [q0, q1, q2, q0] t := by
  simp only [Gen.C03.cubic_d0120_point, Gen.C03.cubic_d0120_poly1d_call, Gen.C03.cubic_d0120_points, Gen.C03.cubic_d0120_poly2bez_point, Gen.C03.cubic_d0120_bpoints2bezier_point]
  refine ⟨?_, ?_, ?_, ?_, ?_⟩ <;> (simp [bernstein, bernsteinAux, Nat.choose] <;> ring)

theorem cubic_d0120_derivative (q0 q1 q2 t : K) :
    Gen.C03.cubic_d0120_derivative_1 q0 q1 q2 t = polyEval (polyDerivN 1 (cubicCoeffs q0 q1 q2 q0)) t := by
  deriv_tac Gen.C03.cubic_d0120_derivative_1, cubicCoeffs

theorem quad_d001 (q0 q1 t : K) :
    Gen.C03.quad_d001_point q0 q1 t = bernstein [q0, q0, q1] t ∧
    Gen.C03.quad_d001_poly1d_call q0 q1 t = bernstein [q0, q0, q1] t ∧
    Gen.C03.quad_d001_points q0 q1 t = bernstein [q0, q0, q1] t ∧
    Gen.C03.quad_d001_poly2bez_point q0 q1 t = bernstein [q0, q0, q1] t ∧
    Gen.C03.quad_d001_bpoints2bezier_point q0 q1 t = bernstein [q0, q0, q1] t := by
  simp only [Gen.C03.quad_d001_point, Gen.C03.quad_d001_poly1d_call, Gen.C03.quad_d001_points, Gen.C03.quad_d001_poly2bez_point, Gen.C03.quad_d001_bpoints2bezier_point]
  refine ⟨?_, ?_, ?_, ?_, ?_⟩ <;> (simp [bernstein, bernsteinAux, Nat.choose] <;> ring)

theorem quad_d001_derivative (q0 q1 t : K) :
    Gen.C03.quad_d001_derivative_1 q0 q1 t = polyEval (polyDerivN 1 (quadCoeffs q0 q0 q1)) t := by
  deriv_tac Gen.C03.quad_d001_derivative_1, quadCoeffs

theorem quad_d011 (q0 q1 t : K) :
    Gen.C03.quad_d011_point q0 q1 t = bernstein [q0, q1, q1] t ∧
    Gen.C03.quad_d011_poly1d_call q0 q1 t = bernstein [q0, q1, q1] t ∧
    Gen.C03.quad_d011_points q0 q1 t = bernstein [q0, q1, q1] t ∧
    Gen.C03.quad_d011_poly2bez_point q0 q1 t = bernstein [q0, q1, q1] t ∧
    Gen.C03.quad_d011_bpoints2bezier_point q0 q1 t = bernstein [q0, q1, q1] t := by
  simp only [Gen.C03.quad_d011_point, Gen.C03.quad_d011_poly1d_call, Gen.C03.quad_d011_points, Gen.C03.quad_d011_poly2bez_point, Gen.C03.quad_d011_bpoints2bezier_point]
  refine ⟨?_, ?_, ?_, ?_, ?_⟩ <;> (simp [bernstein, bernsteinAux, Nat.choose] <;> ring)

theorem quad_d011_derivative (q0 q1 t : K) :
    Gen.C03.quad_d011_derivative_1 q0 q1 t = polyEval (polyDerivN 1 (quadCoeffs q0 q1 q1)) t := by
  deriv_tac Gen.C03.quad_d011_derivative_1, quadCoeffs

theorem quad_d010 (q0 q1 t : K) :
    Gen.C03.quad_d010_point q0 q1 t = bernstein [q0, q1, q0] t ∧
    Gen.C03.quad_d010_poly1d_call q0 q1 t = bernstein [q0, q1, q0] t ∧
    Gen.C03.quad_d010_points q0 q1 t = bernstein [q0, q1, q0] t ∧
    Gen.C03.quad_d010_poly2bez_point q0 q1 t = bernstein [q0, q1, q0] t ∧
    Gen.C03.quad_d010_bpoints2bezier_point q0 q1 t = bernstein [q0, q1, q0] t := by
  simp only [Gen.C03.quad_d010_point, Gen.C03.quad_d010_poly1d_call, Gen.C03.quad_d010_points, Gen.C03.quad_d010_poly2bez_point, Gen.C03.quad_d010_bpoints2bezier_point]
  refine ⟨?_, ?_, ?_, ?_, ?_⟩ <;> (simp [bernstein, bernsteinAux, Nat.choose] <;> ring)

theorem quad_d010_derivative (q0 q1 t : K) :
    Gen.C03.quad_d010_derivative_1 q0 q1 t = polyEval (polyDerivN 1 (quadCoeffs q0 q1 q0)) t := by
  deriv_tac Gen.C03.quad_d010_derivative_1, quadCoeffs

/-- beyond the degree every formal derivative is the zero polynomial — this is the code's
`n > degree: return 0` branch, for **all** such n -/
theorem high_derivative_zero (cs : List K) (n : ℕ) (h : cs.length ≤ n) (t : K) :
    polyEval (polyDerivN n cs) t = 0 := by
  rw [polyDerivN_of_length_le n cs h]; rfl

/-! ## calculus: the formal derivative *is* the derivative (ℝ or ℂ; real parameter with
complex control points) -/

section analysis
variable {𝕜 : Type} [NontriviallyNormedField 𝕜] [CharZero 𝕜]

/-- `CubicBezier.derivative(t, n)` is the n-th derivative of `t ↦ point(t)`, n = 1..5 -/
theorem cubic_derivative_is_iteratedDeriv (p0 p1 p2 p3 t : 𝕜) :
    iteratedDeriv 1 (fun x => Gen.C03.cubic_point p0 p1 p2 p3 x) t = Gen.C03.cubic_derivative_1 p0 p1 p2 p3 t ∧
    iteratedDeriv 2 (fun x => Gen.C03.cubic_point p0 p1 p2 p3 x) t = Gen.C03.cubic_derivative_2 p0 p1 p2 p3 t ∧
    iteratedDeriv 3 (fun x => Gen.C03.cubic_point p0 p1 p2 p3 x) t = Gen.C03.cubic_derivative_3 p0 p1 p2 p3 t ∧
    iteratedDeriv 4 (fun x => Gen.C03.cubic_point p0 p1 p2 p3 x) t = Gen.C03.cubic_derivative_4 p0 p1 p2 p3 t ∧
    iteratedDeriv 5 (fun x => Gen.C03.cubic_point p0 p1 p2 p3 x) t = Gen.C03.cubic_derivative_5 p0 p1 p2 p3 t := by
  have e : (fun x => Gen.C03.cubic_point p0 p1 p2 p3 x) = polyEval (cubicCoeffs p0 p1 p2 p3) := by
    funext x; rw [cubic_point, cubic_poly]
  simp only [e, iteratedDeriv_polyEval, cubic_derivative_1, cubic_derivative_2, cubic_derivative_3,
    cubic_derivative_4, cubic_derivative_5, and_self]

theorem quad_derivative_is_iteratedDeriv (p0 p1 p2 t : 𝕜) :
    iteratedDeriv 1 (fun x => Gen.C03.quad_point p0 p1 p2 x) t = Gen.C03.quad_derivative_1 p0 p1 p2 t ∧
    iteratedDeriv 2 (fun x => Gen.C03.quad_point p0 p1 p2 x) t = Gen.C03.quad_derivative_2 p0 p1 p2 t ∧
    iteratedDeriv 3 (fun x => Gen.C03.quad_point p0 p1 p2 x) t = Gen.C03.quad_derivative_3 p0 p1 p2 t ∧
    iteratedDeriv 4 (fun x => Gen.C03.quad_point p0 p1 p2 x) t = Gen.C03.quad_derivative_4 p0 p1 p2 t ∧
    iteratedDeriv 5 (fun x => Gen.C03.quad_point p0 p1 p2 x) t = Gen.C03.quad_derivative_5 p0 p1 p2 t := by
  have e : (fun x => Gen.C03.quad_point p0 p1 p2 x) = polyEval (quadCoeffs p0 p1 p2) := by
    funext x; rw [quad_point, quad_poly]
  simp only [e, iteratedDeriv_polyEval, quad_derivative_1, quad_derivative_2, quad_derivative_3,
    quad_derivative_4, quad_derivative_5, and_self]

theorem line_derivative_is_iteratedDeriv (p0 p1 t : 𝕜) :
    iteratedDeriv 1 (fun x => Gen.C03.line_point p0 p1 x) t = Gen.C03.line_derivative_1 p0 p1 t ∧
    iteratedDeriv 2 (fun x => Gen.C03.line_point p0 p1 x) t = Gen.C03.line_derivative_2 p0 p1 t ∧
    iteratedDeriv 3 (fun x => Gen.C03.line_point p0 p1 x) t = Gen.C03.line_derivative_3 p0 p1 t ∧
    iteratedDeriv 4 (fun x => Gen.C03.line_point p0 p1 x) t = Gen.C03.line_derivative_4 p0 p1 t ∧
    iteratedDeriv 5 (fun x => Gen.C03.line_point p0 p1 x) t = Gen.C03.line_derivative_5 p0 p1 t := by
  have e : (fun x => Gen.C03.line_point p0 p1 x) = polyEval (lineCoeffs p0 p1) := by
    funext x; rw [line_point, line_poly]
  simp only [e, iteratedDeriv_polyEval, line_derivative_1, line_derivative_2, line_derivative_3,
    line_derivative_4, line_derivative_5, and_self]

/-- every derivative of order above the degree vanishes identically (all n, not only n ≤ 5) -/
theorem cubic_high_derivative (p0 p1 p2 p3 t : 𝕜) (n : ℕ) (h : 4 ≤ n) :
    iteratedDeriv n (fun x => Gen.C03.cubic_point p0 p1 p2 p3 x) t = 0 := by
  have e : (fun x => Gen.C03.cubic_point p0 p1 p2 p3 x) = polyEval (cubicCoeffs p0 p1 p2 p3) := by
    funext x; rw [cubic_point, cubic_poly]
  rw [e, iteratedDeriv_polyEval]; exact high_derivative_zero _ n (by simpa [cubicCoeffs] using h) t
end analysis

/-- complex control points, real parameter: the velocity of `t ↦ point(t)` is `derivative(t)` -/
theorem cubic_hasDerivAt_real (p0 p1 p2 p3 : ℂ) (t : ℝ) :
    HasDerivAt (fun x : ℝ => Gen.C03.cubic_point p0 p1 p2 p3 (x : ℂ))
      (Gen.C03.cubic_derivative_1 p0 p1 p2 p3 (t : ℂ)) t := by
  have e : (fun x : ℝ => Gen.C03.cubic_point p0 p1 p2 p3 (x : ℂ)) =
      fun x : ℝ => polyEval (cubicCoeffs p0 p1 p2 p3) (x : ℂ) := by
    funext x; rw [cubic_point, cubic_poly]
  rw [e, cubic_derivative_1]
  exact hasDerivAt_polyEval_ofReal _ t

/-- non-vacuity: a concrete cubic, evaluated -/
example : Gen.C03.cubic_point (0 : ℚ) 1 3 2 (1 / 2) = 7 / 4 := by norm_num [Gen.C03.cubic_point]

end SvgVerif.Props.C03
