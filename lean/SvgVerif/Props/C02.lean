import SvgVerif.Model.Parser
import SvgVerif.Spec.SvgPath
import Mathlib.Data.List.Basic
import Mathlib.Tactic.Cases
/-! # C02 — `parse_path` implements the SVG path-data semantics for every command sequence

Refinement theorem: for **every** grammatical program (a moveto followed by any number of
commands over the 20 letters, with any arguments, with or without the letter of a repeated
command) the token-level model of `Path._parse_path` returns exactly the segments that the
reference interpreter `Spec.SvgPath.run` (written from SVG 1.1 §8.3 / F.6.2) prescribes.
Law-free except for commutativity of `+` (which IEEE addition has): the statement is about
floats as much as about reals. -/
namespace SvgVerif.Props.C02
set_option linter.unusedSectionVars false
set_option linter.unusedVariables false
set_option linter.unusedSimpArgs false
open SvgVerif.Model SvgVerif.Spec
open SvgVerif.Model.Parser hiding step
open SvgVerif.Spec.SvgPath hiding step

variable {S : Type} [Add S] [Sub S] [DecidableEq S] [OfNat S 0]

/-- upper-case letter of a command -/
def letter : Cmd S → Char
  | .M .. => 'M' | .L .. => 'L' | .H .. => 'H' | .V .. => 'V' | .C .. => 'C' | .Sm .. => 'S'
  | .Q .. => 'Q' | .T .. => 'T' | .A .. => 'A' | .Z => 'Z'

def isAbs : Cmd S → Bool
  | .M a _ | .L a _ | .H a _ | .V a _ | .C a _ _ _ | .Sm a _ _ | .Q a _ _ | .T a _ | .A a _ _ _ _ _ => a
  | .Z => true

def numP (p : Pt S) : List (Tok S) := [.num p.1, .num p.2]

/-- the numeric arguments of a command, in source order -/
def args : Cmd S → List (Tok S)
  | .M _ p | .L _ p | .T _ p => numP p
  | .H _ x => [.num x]
  | .V _ y => [.num y]
  | .C _ c1 c2 p => numP c1 ++ numP c2 ++ numP p
  | .Sm _ c2 p | .Q _ c2 p => numP c2 ++ numP p
  | .A _ r rot large sweep p => numP r ++ [.num rot, .num large, .num sweep] ++ numP p
  | .Z => []

/-- tokens of one command; `om` leaves the letter out (implicit repetition) -/
def cmdToks (c : Cmd S) (om : Bool) : List (Tok S) :=
  if om then args c else .cmd (letter c) (isAbs c) :: args c

/-- may the letter of `c` be left out after `prev`?  Only a repetition of the same command with
the same absolute/relative mode, or a lineto after a moveto. -/
def omitOK (prev c : Cmd S) : Bool :=
  match prev, c with
  | .M a _, .L b _ => a == b
  | .L a _, .L b _ | .H a _, .H b _ | .V a _, .V b _ | .C a _ _ _, .C b _ _ _ | .Sm a _ _, .Sm b _ _
  | .Q a _ _, .Q b _ _ | .T a _, .T b _ | .A a _ _ _ _ _, .A b _ _ _ _ _ => a == b
  | _, _ => false

/-- `command` after a command has been processed -/
def cmdAfter : Cmd S → Option Char
  | .M .. => some 'L'
  | .Z => none
  | c => some (letter c)

def isCS : Cmd S → Bool
  | .C .. | .Sm .. => true
  | _ => false
def isQT : Cmd S → Bool
  | .Q .. | .T .. => true
  | _ => false

/-- the simulation relation between parser state and reference state after command `prev` -/
structure R (ps : PS S) (ss : SS S) (prev : Cmd S) : Prop where
  cur : ps.cur = ss.cur
  start : ps.start = some ss.start
  segs : ps.segs = ss.segs
  closed : ps.closed = ss.closed
  command : ps.command = cmdAfter prev
  absolute : prev ≠ .Z → ps.absolute = isAbs prev
  lastC : ss.lastC = if isCS prev then lastControl2 ss.segs else none
  lastQ : ss.lastQ = if isQT prev then lastControl ss.segs else none

variable (hcomm : ∀ a b : S, a + b = b + a)
include hcomm

theorem rel_eq_at (abs : Bool) (cur p : Pt S) : rel abs cur p = at_ abs cur p := by
  unfold rel at_ padd
  cases abs <;> simp [hcomm p.1 cur.1, hcomm p.2 cur.2]

omit hcomm in
theorem reflect_eq (cur c : Pt S) : psub (padd cur cur) c = reflect cur c := rfl


/-- "the iteration succeeds, leaves exactly `rest`, and the new state simulates `ss'`" -/
def Good (rest : List (Tok S)) (ss' : SS S) (c : Cmd S) : Except Err (PS S × List (Tok S)) → Prop
  | .ok (ps', r) => r = rest ∧ R ps' ss' c
  | .error _ => False

omit hcomm in
theorem omit_false_of_M (prev : Cmd S) (abs : Bool) (p : Pt S) (om : Bool)
    (hok : om = true → omitOK prev (.M abs p) = true) : om = false := by
  cases om
  · rfl
  · have := hok rfl; cases prev <;> simp [omitOK] at this

/-- closes the simulation-relation goal once `simp` has computed the successor state -/
macro "close_R" : tactic =>
  `(tactic| (first
      | (constructor <;>
          simp_all [SvgPath.step, at_, padd, psub, reflect, cmdAfter, letter, isAbs, isCS, isQT, lastControl2, lastControl]) <;>
        (try (split <;> simp_all))
      | skip))

/-- closes the simulation-relation goal once `simp` has computed the successor state -/
macro "close_R" : tactic =>
  `(tactic| (first
      | done
      | (constructor <;>
          simp_all [SvgPath.step, at_, padd, psub, reflect, cmdAfter, letter, isAbs, isCS, isQT, lastControl2, lastControl]) <;>
        (try (split <;> simp_all))))

theorem step_sim_M (ps : PS S) (ss : SS S) (prev : Cmd S) (abs : Bool) (p : Pt S) (om : Bool) (rest : List (Tok S))
    (hR : R ps ss prev) (hok : om = true → omitOK prev (.M abs p) = true) :
    Good rest (SvgPath.step ss (.M abs p)) (.M abs p) (Parser.step false ps (cmdToks (.M abs p) om ++ rest)) := by
  obtain ⟨h1, h2, h3, h4, h5, h6, h7, h8⟩ := hR
  have := omit_false_of_M prev abs p om hok
  subst this
  simp [Good, cmdToks, letter, isAbs, args, numP, Parser.step, body, popPt, popPtML, popNum]
  close_R

theorem step_sim_Z (ps : PS S) (ss : SS S) (prev : Cmd S) (om : Bool) (rest : List (Tok S))
    (hR : R ps ss prev) (hok : om = true → omitOK prev (.Z) = true) :
    Good rest (SvgPath.step ss .Z) .Z (Parser.step false ps (cmdToks (.Z : Cmd S) om ++ rest)) := by
  obtain ⟨h1, h2, h3, h4, h5, h6, h7, h8⟩ := hR
  have : om = false := by
    cases om
    · rfl
    · have := hok rfl; cases prev <;> simp [omitOK] at this
  subst this
  simp [Good, cmdToks, letter, isAbs, args, Parser.step, body, h2]
  close_R

theorem step_sim_L (ps : PS S) (ss : SS S) (prev : Cmd S) (abs : Bool) (p : Pt S) (om : Bool) (rest : List (Tok S))
    (hR : R ps ss prev) (hok : om = true → omitOK prev (.L abs p) = true) :
    Good rest (SvgPath.step ss (.L abs p)) (.L abs p) (Parser.step false ps (cmdToks (.L abs p) om ++ rest)) := by
  obtain ⟨h1, h2, h3, h4, h5, h6, h7, h8⟩ := hR
  cases om
  · simp [Good, cmdToks, letter, isAbs, args, numP, Parser.step, body, popPt, popPtML, popNum, rel_eq_at hcomm, reflect_eq]
    close_R
  · have hk := hok rfl
    cases prev <;> simp [omitOK] at hk <;>
      (subst hk
       simp [cmdAfter, letter, isAbs] at h5 h6
       simp [Good, cmdToks, args, numP, Parser.step, body, popPt, popPtML, popNum, h5, h6, rel_eq_at hcomm, reflect_eq]
       close_R)

theorem step_sim_H (ps : PS S) (ss : SS S) (prev : Cmd S) (abs : Bool) (x : S) (om : Bool) (rest : List (Tok S))
    (hR : R ps ss prev) (hok : om = true → omitOK prev (.H abs x) = true) :
    Good rest (SvgPath.step ss (.H abs x)) (.H abs x) (Parser.step false ps (cmdToks (.H abs x) om ++ rest)) := by
  obtain ⟨h1, h2, h3, h4, h5, h6, h7, h8⟩ := hR
  cases om
  · simp [Good, cmdToks, letter, isAbs, args, numP, Parser.step, body, popPt, popPtML, popNum, rel_eq_at hcomm, reflect_eq, hcomm x ps.cur.1]
    close_R
  · have hk := hok rfl
    cases prev <;> simp [omitOK] at hk <;>
      (subst hk
       simp [cmdAfter, letter, isAbs] at h5 h6
       simp [Good, cmdToks, args, numP, Parser.step, body, popPt, popPtML, popNum, h5, h6, rel_eq_at hcomm, reflect_eq, hcomm x ps.cur.1]
       close_R)

theorem step_sim_V (ps : PS S) (ss : SS S) (prev : Cmd S) (abs : Bool) (y : S) (om : Bool) (rest : List (Tok S))
    (hR : R ps ss prev) (hok : om = true → omitOK prev (.V abs y) = true) :
    Good rest (SvgPath.step ss (.V abs y)) (.V abs y) (Parser.step false ps (cmdToks (.V abs y) om ++ rest)) := by
  obtain ⟨h1, h2, h3, h4, h5, h6, h7, h8⟩ := hR
  cases om
  · simp [Good, cmdToks, letter, isAbs, args, numP, Parser.step, body, popPt, popPtML, popNum, rel_eq_at hcomm, reflect_eq, hcomm y ps.cur.2]
    close_R
  · have hk := hok rfl
    cases prev <;> simp [omitOK] at hk <;>
      (subst hk
       simp [cmdAfter, letter, isAbs] at h5 h6
       simp [Good, cmdToks, args, numP, Parser.step, body, popPt, popPtML, popNum, h5, h6, rel_eq_at hcomm, reflect_eq, hcomm y ps.cur.2]
       close_R)

theorem step_sim_C (ps : PS S) (ss : SS S) (prev : Cmd S) (abs : Bool) (c1 c2 p : Pt S) (om : Bool) (rest : List (Tok S))
    (hR : R ps ss prev) (hok : om = true → omitOK prev (.C abs c1 c2 p) = true) :
    Good rest (SvgPath.step ss (.C abs c1 c2 p)) (.C abs c1 c2 p) (Parser.step false ps (cmdToks (.C abs c1 c2 p) om ++ rest)) := by
  obtain ⟨h1, h2, h3, h4, h5, h6, h7, h8⟩ := hR
  cases om
  · simp [Good, cmdToks, letter, isAbs, args, numP, Parser.step, body, popPt, popPtML, popNum, rel_eq_at hcomm, reflect_eq]
    close_R
  · have hk := hok rfl
    cases prev <;> simp [omitOK] at hk <;>
      (subst hk
       simp [cmdAfter, letter, isAbs] at h5 h6
       simp [Good, cmdToks, args, numP, Parser.step, body, popPt, popPtML, popNum, h5, h6, rel_eq_at hcomm, reflect_eq]
       close_R)

theorem step_sim_Sm (ps : PS S) (ss : SS S) (prev : Cmd S) (abs : Bool) (c2 p : Pt S) (om : Bool) (rest : List (Tok S))
    (hR : R ps ss prev) (hok : om = true → omitOK prev (.Sm abs c2 p) = true) :
    Good rest (SvgPath.step ss (.Sm abs c2 p)) (.Sm abs c2 p) (Parser.step false ps (cmdToks (.Sm abs c2 p) om ++ rest)) := by
  obtain ⟨h1, h2, h3, h4, h5, h6, h7, h8⟩ := hR
  cases om
  · cases prev <;>
      (simp [cmdAfter, letter, isCS, isQT] at h5 h7 h8
       simp [Good, cmdToks, letter, isAbs, args, numP, Parser.step, body, popPt, popPtML, popNum, rel_eq_at hcomm, reflect_eq, h5]
       close_R)
  · have hk := hok rfl
    cases prev <;> simp [omitOK] at hk <;>
      (subst hk
       simp [cmdAfter, letter, isAbs, isCS, isQT] at h5 h6 h7 h8
       simp [Good, cmdToks, args, numP, Parser.step, body, popPt, popPtML, popNum, h5, h6, rel_eq_at hcomm, reflect_eq]
       close_R)

theorem step_sim_Q (ps : PS S) (ss : SS S) (prev : Cmd S) (abs : Bool) (c p : Pt S) (om : Bool) (rest : List (Tok S))
    (hR : R ps ss prev) (hok : om = true → omitOK prev (.Q abs c p) = true) :
    Good rest (SvgPath.step ss (.Q abs c p)) (.Q abs c p) (Parser.step false ps (cmdToks (.Q abs c p) om ++ rest)) := by
  obtain ⟨h1, h2, h3, h4, h5, h6, h7, h8⟩ := hR
  cases om
  · simp [Good, cmdToks, letter, isAbs, args, numP, Parser.step, body, popPt, popPtML, popNum, rel_eq_at hcomm, reflect_eq]
    close_R
  · have hk := hok rfl
    cases prev <;> simp [omitOK] at hk <;>
      (subst hk
       simp [cmdAfter, letter, isAbs] at h5 h6
       simp [Good, cmdToks, args, numP, Parser.step, body, popPt, popPtML, popNum, h5, h6, rel_eq_at hcomm, reflect_eq]
       close_R)

theorem step_sim_T (ps : PS S) (ss : SS S) (prev : Cmd S) (abs : Bool) (p : Pt S) (om : Bool) (rest : List (Tok S))
    (hR : R ps ss prev) (hok : om = true → omitOK prev (.T abs p) = true) :
    Good rest (SvgPath.step ss (.T abs p)) (.T abs p) (Parser.step false ps (cmdToks (.T abs p) om ++ rest)) := by
  obtain ⟨h1, h2, h3, h4, h5, h6, h7, h8⟩ := hR
  cases om
  · cases prev <;>
      (simp [cmdAfter, letter, isCS, isQT] at h5 h7 h8
       simp [Good, cmdToks, letter, isAbs, args, numP, Parser.step, body, popPt, popPtML, popNum, rel_eq_at hcomm, reflect_eq, h5]
       close_R)
  · have hk := hok rfl
    cases prev <;> simp [omitOK] at hk <;>
      (subst hk
       simp [cmdAfter, letter, isAbs, isCS, isQT] at h5 h6 h7 h8
       simp [Good, cmdToks, args, numP, Parser.step, body, popPt, popPtML, popNum, h5, h6, rel_eq_at hcomm, reflect_eq]
       close_R)

theorem step_sim_A (ps : PS S) (ss : SS S) (prev : Cmd S) (abs : Bool) (r : Pt S) (rot large sweep : S) (p : Pt S) (om : Bool) (rest : List (Tok S))
    (hR : R ps ss prev) (hok : om = true → omitOK prev (.A abs r rot large sweep p) = true) :
    Good rest (SvgPath.step ss (.A abs r rot large sweep p)) (.A abs r rot large sweep p) (Parser.step false ps (cmdToks (.A abs r rot large sweep p) om ++ rest)) := by
  obtain ⟨h1, h2, h3, h4, h5, h6, h7, h8⟩ := hR
  cases om
  · simp [Good, cmdToks, letter, isAbs, args, numP, Parser.step, body, popPt, popPtML, popNum, rel_eq_at hcomm, reflect_eq]
    by_cases hz : r.1 = 0 ∨ r.2 = 0
    · simp [hz]; close_R
    · simp [hz]
      by_cases he : ps.cur = at_ abs ps.cur (p.1, p.2)
      · simp [← he]
        have he' := he.symm
        clear he
        constructor <;>
          simp_all [SvgPath.step, at_, padd, psub, reflect, cmdAfter, letter, isAbs, isCS, isQT, lastControl2, lastControl]
      · simp [he]
        constructor <;>
          simp_all [SvgPath.step, at_, padd, psub, reflect, cmdAfter, letter, isAbs, isCS, isQT, lastControl2, lastControl]
  · have hk := hok rfl
    cases prev <;> simp [omitOK] at hk
    subst hk
    simp [cmdAfter, letter, isAbs] at h5 h6
    simp [Good, cmdToks, args, numP, Parser.step, body, popPt, popPtML, popNum, h5, h6, rel_eq_at hcomm, reflect_eq]
    rename_i abs' _ _ _ _ _
    by_cases hz : r.1 = 0 ∨ r.2 = 0
    · simp [hz]; close_R
    · simp [hz]
      by_cases he : ps.cur = at_ abs' ps.cur (p.1, p.2)
      · simp [← he]
        have he' := he.symm
        clear he
        constructor <;>
          simp_all [SvgPath.step, at_, padd, psub, reflect, cmdAfter, letter, isAbs, isCS, isQT, lastControl2, lastControl]
      · simp [he]
        constructor <;>
          simp_all [SvgPath.step, at_, padd, psub, reflect, cmdAfter, letter, isAbs, isCS, isQT, lastControl2, lastControl]

/-- one loop iteration simulates one command of the reference interpreter -/
theorem step_sim (ps : PS S) (ss : SS S) (prev c : Cmd S) (om : Bool) (rest : List (Tok S))
    (hR : R ps ss prev) (hok : om = true → omitOK prev c = true) :
    Good rest (SvgPath.step ss c) c (Parser.step false ps (cmdToks c om ++ rest)) := by
  cases c with
  | M abs p => exact step_sim_M hcomm ps ss prev abs p om rest hR hok
  | L abs p => exact step_sim_L hcomm ps ss prev abs p om rest hR hok
  | H abs x => exact step_sim_H hcomm ps ss prev abs x om rest hR hok
  | V abs y => exact step_sim_V hcomm ps ss prev abs y om rest hR hok
  | C abs c1 c2 p => exact step_sim_C hcomm ps ss prev abs c1 c2 p om rest hR hok
  | Sm abs c2 p => exact step_sim_Sm hcomm ps ss prev abs c2 p om rest hR hok
  | Q abs c p => exact step_sim_Q hcomm ps ss prev abs c p om rest hR hok
  | T abs p => exact step_sim_T hcomm ps ss prev abs p om rest hR hok
  | A abs r rot large sweep p => exact step_sim_A hcomm ps ss prev abs r rot large sweep p om rest hR hok
  | Z => exact step_sim_Z hcomm ps ss prev om rest hR hok


/-! ## from one iteration to whole programs -/

/-- a program after its initial moveto: commands paired with "letter omitted" flags -/
abbrev Prog (S : Type) := List (Cmd S × Bool)

/-- every omitted letter is one that SVG allows to omit after its predecessor -/
def Valid : Cmd S → Prog S → Prop
  | _, [] => True
  | prev, (c, om) :: rest => (om = true → omitOK prev c = true) ∧ Valid c rest

def toks : Prog S → List (Tok S)
  | [] => []
  | (c, om) :: rest => cmdToks c om ++ toks rest

def lastCmd : Cmd S → Prog S → Cmd S
  | prev, [] => prev
  | _, (c, _) :: rest => lastCmd c rest

omit hcomm in
theorem cmdToks_ne_nil (prev c : Cmd S) (om : Bool) (h : om = true → omitOK prev c = true) :
    cmdToks c om ≠ [] := by
  cases om
  · simp [cmdToks]
  · have := h rfl
    cases c <;> cases prev <;> simp [omitOK] at this <;> simp [cmdToks, args, numP]

omit hcomm in
theorem loop_nonempty (n : ℕ) (ps : PS S) (ts : List (Tok S)) (h : ts ≠ []) :
    loop false (n + 1) ps ts =
      match Parser.step false ps ts with
      | .error e => .error e
      | .ok (ps', ts') => loop false n ps' ts' := by
  cases ts with
  | nil => exact absurd rfl h
  | cons t r => rfl

/-- "the loop succeeds and its final state simulates `ss'`" -/
def GoodLoop (ss' : SS S) (c : Cmd S) : Except Err (PS S) → Prop
  | .ok ps' => R ps' ss' c
  | .error _ => False

theorem loop_sim (prog : Prog S) (prev : Cmd S) (ps : PS S) (ss : SS S) (hR : R ps ss prev)
    (hv : Valid prev prog) (fuel : ℕ) (hf : prog.length ≤ fuel) :
    GoodLoop ((prog.map (·.1)).foldl SvgPath.step ss) (lastCmd prev prog) (loop false fuel ps (toks prog)) := by
  induction prog generalizing prev ps ss fuel with
  | nil =>
    cases fuel <;> simpa [toks, loop, GoodLoop, lastCmd] using hR
  | cons co rest ih =>
    obtain ⟨c, om⟩ := co
    obtain ⟨hok, hv'⟩ := hv
    cases fuel with
    | zero => simp at hf
    | succ n =>
      have hne : cmdToks c om ++ toks rest ≠ [] := by
        intro h
        exact cmdToks_ne_nil prev c om hok (List.append_eq_nil_iff.mp h).1
      have hs := step_sim hcomm ps ss prev c om (toks rest) hR hok
      simp only [toks]
      rw [loop_nonempty n ps _ hne]
      cases hstep : Parser.step false ps (cmdToks c om ++ toks rest) with
      | error e => rw [hstep] at hs; exact hs.elim
      | ok res =>
        obtain ⟨ps', r⟩ := res
        rw [hstep] at hs
        obtain ⟨hr, hR'⟩ := hs
        subst hr
        simpa [lastCmd] using ih c ps' (SvgPath.step ss c) hR' hv' n (by simpa using hf)

omit hcomm in
theorem toks_length (prev : Cmd S) (prog : Prog S) (hv : Valid prev prog) : prog.length ≤ (toks prog).length := by
  induction prog generalizing prev with
  | nil => simp
  | cons co rest ih =>
    obtain ⟨c, om⟩ := co
    have h1 := cmdToks_ne_nil prev c om hv.1
    have : 1 ≤ (cmdToks c om).length := List.length_pos_iff.mpr h1
    have := ih c hv.2
    simp [toks]; omega

/-- parser state after the initial moveto -/
def afterM (q : Pt S) (abs0 : Bool) : PS S := ⟨q, some q, some 'L', abs0, [], false⟩
/-- reference state after the initial moveto -/
def specAfterM (q : Pt S) : SS S := ⟨q, q, none, none, [], false⟩

/-- **C02, token level.**  For every grammatical program — an initial moveto followed by any
commands, each with or without its letter where SVG permits — the model of `_parse_path`
returns exactly the segment list and closed flag of the reference interpreter. -/
theorem parse_refines_spec (cur0 : Pt S) (abs0 : Bool) (p0 : Pt S) (prog : Prog S)
    (hv : Valid (.M abs0 p0) prog) :
    (parseToks false cur0 (cmdToks (.M abs0 p0) false ++ toks prog)).toOption
      = SvgPath.run cur0 (.M abs0 p0 :: prog.map (·.1)) := by
  unfold parseToks
  have hne : cmdToks (Cmd.M abs0 p0) false ++ toks prog ≠ [] := by simp [cmdToks]
  rw [loop_nonempty _ _ _ hne]
  -- the initial moveto
  have hstep : Parser.step false (initial cur0) (cmdToks (Cmd.M abs0 p0) false ++ toks prog) =
      .ok (afterM (at_ abs0 cur0 p0) abs0, toks prog) := by
    cases abs0 <;> simp [cmdToks, letter, isAbs, args, numP, Parser.step, body, popPt, popPtML, popNum, initial, at_, padd, afterM]
  rw [hstep]
  simp only
  have hR0 : R (afterM (at_ abs0 cur0 p0) abs0) (specAfterM (at_ abs0 cur0 p0)) (.M abs0 p0) := by
    constructor <;> simp [cmdAfter, isAbs, isCS, isQT, afterM, specAfterM]
  have hl := toks_length (.M abs0 p0) prog hv
  have := loop_sim hcomm prog (.M abs0 p0) _ _ hR0 hv ((cmdToks (Cmd.M abs0 p0) false ++ toks prog).length) (by
    simp [cmdToks]; omega)
  cases hloop : loop false (cmdToks (Cmd.M abs0 p0) false ++ toks prog).length _ (toks prog) with
  | error e => rw [hloop] at this; exact this.elim
  | ok psf =>
    rw [hloop] at this
    have hR := this
    simp [SvgPath.run, Except.toOption, hR.segs, hR.closed, specAfterM]

end SvgVerif.Props.C02

namespace SvgVerif.Props.C02
open SvgVerif.Model SvgVerif.Spec
open SvgVerif.Model.Parser hiding step
open SvgVerif.Spec.SvgPath hiding step
/-! ## non-vacuity and the pre-repair defects as kernel-checked witnesses -/

/-- a valid program exercising implicit repetition, smooth commands after a closepath and an
arc that ends on the current point -/
def demoProg : Prog Int :=
  [(.L true (4, 0), true), (.C true (5, 1) (6, 1) (7, 0), false), (.Sm false (2, -1) (3, 0), false),
   (.Sm false (2, 1) (3, 0), true), (.Z, false), (.Sm true (1, 1) (2, 2), false), (.Q false (1, 1) (2, 0), false),
   (.T true (9, 9), false), (.A false (5, 5) 0 0 1 (0, 0), false), (.H false 3, false), (.V true 7, false)]

example : Valid (.M true (0, 0)) demoProg := by simp [Valid, demoProg, omitOK]

example : parseToks false (0, 0) (cmdToks (.M true ((0 : Int), 0)) false ++ toks demoProg) =
    .ok ([.line (0, 0) (4, 0), .cubic (4, 0) (5, 1) (6, 1) (7, 0), .cubic (7, 0) (8, -1) (9, -1) (10, 0),
          .cubic (10, 0) (11, 1) (12, 1) (13, 0), .line (13, 0) (0, 0), .cubic (0, 0) (0, 0) (1, 1) (2, 2),
          .quad (2, 2) (3, 3) (4, 2), .quad (4, 2) (5, 1) (9, 9), .line (9, 9) (12, 9), .line (12, 9) (12, 7)], true) := by
  decide

/-- "every valid program parses (no exception)", as a property of a parser -/
def ParsesValidPrograms (parse : Pt Int → List (Tok Int) → Except Err (List (Seg Int) × Bool)) : Prop :=
  ∀ prog : Prog Int, Valid (.M true (0, 0)) prog →
    ∃ r, parse (0, 0) (cmdToks (.M true ((0 : Int), 0)) false ++ toks prog) = .ok r

theorem parsesValid_repaired : ParsesValidPrograms (parseToks false) := by
  intro prog hv
  have h := parse_refines_spec (S := Int) (fun a b => Int.add_comm a b) (0, 0) true (0, 0) prog hv
  cases hp : parseToks false (0, 0) (cmdToks (.M true ((0 : Int), 0)) false ++ toks prog) with
  | ok r => exact ⟨r, rfl⟩
  | error e => rw [hp] at h; simp [Except.toOption, SvgPath.run] at h

/-- before the repairs: `M 0,0 L 1,1 Z S 1,1 2,2` raised TypeError (F4) -/
theorem not_parsesValid_legacy : ¬ ParsesValidPrograms (parseToks true) := by
  intro h
  obtain ⟨r, hr⟩ := h [(.L true (1, 1), false), (.Z, false), (.Sm true (1, 1) (2, 2), false)] (by simp [Valid, omitOK])
  have e : parseToks true (0, 0) (cmdToks (.M true ((0 : Int), 0)) false ++
      toks [(.L true (1, 1), false), (.Z, false), (.Sm true (1, 1) (2, 2), false)]) = .error .noneNotInStr := by decide
  rw [e] at hr
  cases hr

end SvgVerif.Props.C02
