import SvgVerif.Props.C04Param
/-! # C04 / C09 / C10 — the round trip "centre form → end points → `Arc._parameterize`", and what it gives for
`Arc.reversed`, `Arc.cropped`, `translate`, `rotate`, `scale`

`Props/C04Param.lean` proves what `_parameterize` stores for given END-POINT data.  This file proves the converse
direction (SVG implementation notes F.6.4 → F.6.5): take ANY elliptical arc in CENTRE form, hand its end points,
radii, rotation and flags to the constructor, and the stored centre, radii, start angle and sweep are the ones the
arc was built from (`arcParams_roundtrip`), so the rebuilt object is the same parameterised curve
(`roundtrip_point`, on the `Arc.point` traced from the code).  Every operation of the library that creates an arc
from transformed or selected end points of an existing arc is an instance:

* `reversed_point`   — `Arc(end, radius, rotation, large_arc, not sweep, start)` at `t` is the original at `1 − t`;
* `cropped_point`    — `Arc(point(t0), radius, rotation, |delta·(t1−t0)| > 180, sweep, point(t1))` at `u` is the
                       original at `t0 + u (t1 − t0)`, for `0 ≤ t0 < t1 ≤ 1` (hence `split`);
* `translated_point`, `rotated_point`, `scaled_point` — the rebuilt arc is the image of the original (uniform
                       scale by any `s ≠ 0`; for `s < 0` the eccentric angles shift by half a turn);
* `built_centerform` — every arc the constructor accepts IS such a centre-form arc (from `point_zero`, `point_one`,
                       `delta_sweep_large`, `delta_exact_fit`), so the corollaries apply to constructor-built arcs:
                       `built_reversed`, `built_cropped`;
* `arcInit_eq`, `init_admissible` — the constructor itself (`abs` of the radii, `bool()` of the flags; tied by the
                       exact stream "Arc.__init__") feeds `_parameterize` admissible data with positive radii.

Exact arithmetic over ℝ with the exact reading of `np.isclose` (the 1e-8 snap band is finding F29). -/
namespace SvgVerif.Props.C04RoundTrip
set_option linter.unusedVariables false
set_option linter.unusedSimpArgs false
set_option linter.unusedTactic false
set_option linter.unreachableTactic false
open Real SvgVerif SvgVerif.Model.ArcParam SvgVerif.Props.C04Param

/-- principal angle: for `x ∈ (-π, π]` the three-way case split of the code returns `x` in degrees -/
theorem thetaDeg_cos_sin (x : ℝ) (h1 : -π < x) (h2 : x ≤ π) :
    SvgVerif.Props.C04.thetaDeg (cos x) (sin x) = x * 180 / π := by
  have hπ := Real.pi_pos
  unfold SvgVerif.Props.C04.thetaDeg
  rcases lt_trichotomy x 0 with hx | hx | hx
  · -- sin x < 0
    have hs : sin x < 0 := Real.sin_neg_of_neg_of_neg_pi_lt hx h1
    rw [if_neg (not_lt.mpr hs.le), if_pos hs]
    have : arccos (cos x) = -x := by
      rw [← Real.cos_neg]; exact Real.arccos_cos (by linarith) (by linarith)
    rw [this]; ring
  · subst hx
    simp
  · rcases h2.lt_or_eq with h2 | h2
    · have hs : 0 < sin x := Real.sin_pos_of_pos_of_lt_pi hx h2
      rw [if_pos hs, Real.arccos_cos hx.le h2.le]
    · subst h2
      simp only [Real.sin_pi, Real.cos_pi, lt_self_iff_false, if_false]
      norm_num

/-- the sign chosen for the centre makes `σ ρ sin h = cos h` -/
theorem sign_identity_iff (h : ℝ) (large sweep : Bool) (h0 : h ≠ 0) (h1 : -π < h) (h2 : h < π)
    (hL : large = true ↔ π < |2 * h|) (hS : sweep = true ↔ 0 < 2 * h) :
    Sg large sweep * (|cos h| / |sin h|) * sin h = cos h := by
  have hπ := Real.pi_pos
  unfold Sg
  rcases lt_or_gt_of_ne h0 with hneg | hpos
  · have hs : sin h < 0 := Real.sin_neg_of_neg_of_neg_pi_lt hneg h1
    have hsn : sin h ≠ 0 := hs.ne
    have hsw : sweep = false := by
      cases sweep with
      | false => rfl
      | true => have := hS.mp rfl; linarith
    have habs : |2 * h| = -(2 * h) := abs_of_neg (by linarith)
    have e : |sin h| = -sin h := abs_of_neg hs
    by_cases hl : π < |2 * h|
    · have hc : cos h < 0 := by
        rw [← Real.cos_neg]
        exact Real.cos_neg_of_pi_div_two_lt_of_lt (by rw [habs] at hl; linarith) (by linarith)
      have hlg : large = true := hL.mpr hl
      rw [hlg, hsw, if_neg (by simp), abs_of_neg hc, e]
      field_simp
    · have hc : 0 ≤ cos h := by
        rw [← Real.cos_neg]
        exact Real.cos_nonneg_of_neg_pi_div_two_le_of_le (by linarith) (by rw [habs] at hl; linarith)
      have hlg : large = false := by
        cases large with
        | false => rfl
        | true => exact absurd (hL.mp rfl) hl
      rw [hlg, hsw, if_pos rfl, abs_of_nonneg hc, e]
      field_simp
  · have hs : 0 < sin h := Real.sin_pos_of_pos_of_lt_pi hpos h2
    have hsn : sin h ≠ 0 := hs.ne'
    have hsw : sweep = true := hS.mpr (by linarith)
    have habs : |2 * h| = 2 * h := abs_of_pos (by linarith)
    have e : |sin h| = sin h := abs_of_pos hs
    by_cases hl : π < |2 * h|
    · have hc : cos h < 0 := Real.cos_neg_of_pi_div_two_lt_of_lt (by rw [habs] at hl; linarith) (by linarith)
      have hlg : large = true := hL.mpr hl
      rw [hlg, hsw, if_pos rfl, abs_of_neg hc, e]
      field_simp
    · have hc : 0 ≤ cos h :=
        Real.cos_nonneg_of_neg_pi_div_two_le_of_le (by linarith) (by rw [habs] at hl; linarith)
      have hlg : large = false := by
        cases large with
        | false => rfl
        | true => exact absurd (hL.mp rfl) hl
      rw [hlg, hsw, if_neg (by simp), abs_of_nonneg hc, e]
      field_simp


theorem abs_two_mul_eq_pi_cos (h : ℝ) (he : |2 * h| = π) : cos h = 0 := by
  have hπ := Real.pi_pos
  rcases abs_eq hπ.le |>.mp he with e | e
  · have : h = π / 2 := by linarith
    rw [this]; exact Real.cos_pi_div_two
  · have : h = -(π / 2) := by linarith
    rw [this, Real.cos_neg]; exact Real.cos_pi_div_two

/-- the flags of the arc determine `large` only when the sweep is not exactly half a turn -/
theorem flags_iff (h : ℝ) (large : Bool) (hne : |2 * h| ≠ π)
    (hL : (large = true → π ≤ |2 * h|) ∧ (large = false → |2 * h| ≤ π)) : large = true ↔ π < |2 * h| := by
  constructor
  · intro hl; exact lt_of_le_of_ne (hL.1 hl) (Ne.symm hne)
  · intro hl
    cases large with
    | true => rfl
    | false => exact absurd (hL.2 rfl) (not_le.mpr hl)

theorem sign_identity (h : ℝ) (large sweep : Bool) (h0 : h ≠ 0) (h1 : -π < h) (h2 : h < π)
    (hL : (large = true → π ≤ |2 * h|) ∧ (large = false → |2 * h| ≤ π)) (hS : sweep = true ↔ 0 < 2 * h) :
    Sg large sweep * (|cos h| / |sin h|) * sin h = cos h := by
  by_cases he : |2 * h| = π
  · rw [abs_two_mul_eq_pi_cos h he]; simp
  · exact sign_identity_iff h large sweep h0 h1 h2 (flags_iff h large he hL) hS

section rt
variable (cx cy rx ry wx wy m h : ℝ)

/-- start and end points of the arc with centre `(cx, cy)`, radii `rx, ry`, axis direction `w = (wx, wy)`,
eccentric angles `m - h` and `m + h` (radians) -/
noncomputable def Sx (cx cy rx ry wx wy m h : ℝ) : ℝ := cx + wx * (rx * cos (m - h)) - wy * (ry * sin (m - h))
noncomputable def Sy (cx cy rx ry wx wy m h : ℝ) : ℝ := cy + wy * (rx * cos (m - h)) + wx * (ry * sin (m - h))
noncomputable def Ex (cx cy rx ry wx wy m h : ℝ) : ℝ := cx + wx * (rx * cos (m + h)) - wy * (ry * sin (m + h))
noncomputable def Ey (cx cy rx ry wx wy m h : ℝ) : ℝ := cy + wy * (rx * cos (m + h)) + wx * (ry * sin (m + h))

structure Hyp (rx ry wx wy h : ℝ) : Prop where
  hw : wx * wx + wy * wy = 1
  hrx : 0 < rx
  hry : 0 < ry
  h0 : h ≠ 0
  h1 : -π < h
  h2 : h < π

variable {cx cy rx ry wx wy m h}

theorem sin_h_ne (H : Hyp rx ry wx wy h) : sin h ≠ 0 := by
  rcases lt_or_gt_of_ne H.h0 with hn | hp
  · exact (Real.sin_neg_of_neg_of_neg_pi_lt hn H.h1).ne
  · exact (Real.sin_pos_of_pos_of_lt_pi hp H.h2).ne'

theorem x1_eq (H : Hyp rx ry wx wy h) :
    X1 (Sx cx cy rx ry wx wy m h) (Sy cx cy rx ry wx wy m h) (Ex cx cy rx ry wx wy m h) (Ey cx cy rx ry wx wy m h) wx wy
      = rx * (sin m * sin h) := by
  unfold X1
  rw [zp1_unit _ _ _ _ _ _ H.hw]
  simp only [Sx, Sy, Ex, Ey, cos_sub, cos_add, sin_sub, sin_add]
  linear_combination (rx * (sin m * sin h)) * H.hw

theorem y1_eq (H : Hyp rx ry wx wy h) :
    Y1 (Sx cx cy rx ry wx wy m h) (Sy cx cy rx ry wx wy m h) (Ex cx cy rx ry wx wy m h) (Ey cx cy rx ry wx wy m h) wx wy
      = -(ry * (cos m * sin h)) := by
  unfold Y1
  rw [zp1_unit _ _ _ _ _ _ H.hw]
  simp only [Sx, Sy, Ex, Ey, cos_sub, cos_add, sin_sub, sin_add]
  linear_combination (-(ry * (cos m * sin h))) * H.hw

theorem lam_eq (H : Hyp rx ry wx wy h) :
    Lam (Sx cx cy rx ry wx wy m h) (Sy cx cy rx ry wx wy m h) (Ex cx cy rx ry wx wy m h) (Ey cx cy rx ry wx wy m h) rx ry wx wy
      = sin h ^ 2 := by
  unfold Lam radiusCheck
  rw [x1_eq H, y1_eq H]
  have hrx := H.hrx.ne'
  have hry := H.hry.ne'
  field_simp
  linear_combination (sin h ^ 2) * (Real.sin_sq_add_cos_sq m)


theorem sin_sq_le (x : ℝ) : sin x ^ 2 ≤ 1 := by nlinarith [Real.sin_sq_add_cos_sq x, sq_nonneg (cos x)]

theorem scale_eq (H : Hyp rx ry wx wy h) : scaleF (Sx cx cy rx ry wx wy m h) (Sy cx cy rx ry wx wy m h) (Ex cx cy rx ry wx wy m h) (Ey cx cy rx ry wx wy m h) rx ry wx wy = 1 := by
  unfold scaleF
  rw [lam_eq H, if_neg (not_lt.mpr (sin_sq_le h))]

theorem rx_eq (H : Hyp rx ry wx wy h) : RX (Sx cx cy rx ry wx wy m h) (Sy cx cy rx ry wx wy m h) (Ex cx cy rx ry wx wy m h) (Ey cx cy rx ry wx wy m h) rx ry wx wy = rx := by unfold RX; rw [scale_eq H, mul_one]
theorem ry_eq (H : Hyp rx ry wx wy h) : RY (Sx cx cy rx ry wx wy m h) (Sy cx cy rx ry wx wy m h) (Ex cx cy rx ry wx wy m h) (Ey cx cy rx ry wx wy m h) rx ry wx wy = ry := by unfold RY; rw [scale_eq H, mul_one]

theorem lam'_eq (H : Hyp rx ry wx wy h) : Lam' (Sx cx cy rx ry wx wy m h) (Sy cx cy rx ry wx wy m h) (Ex cx cy rx ry wx wy m h) (Ey cx cy rx ry wx wy m h) rx ry wx wy = sin h ^ 2 := by
  unfold Lam'; rw [rx_eq H, ry_eq H]; exact lam_eq H

theorem adm (H : Hyp rx ry wx wy h) : Admissible (Sx cx cy rx ry wx wy m h) (Sy cx cy rx ry wx wy m h) (Ex cx cy rx ry wx wy m h) (Ey cx cy rx ry wx wy m h) rx ry wx wy := by
  refine ⟨H.hw, H.hrx.ne', H.hry.ne', ?_⟩
  by_contra hcon
  rw [not_or, not_not, not_not] at hcon
  have hx := x1_eq (cx := cx) (cy := cy) (m := m) H
  have hl := lam_eq (cx := cx) (cy := cy) (m := m) H
  unfold Lam radiusCheck at hl
  unfold X1 Y1 at hl
  rw [zp1_unit _ _ _ _ _ _ H.hw, hcon.1, hcon.2] at hl
  simp at hl
  exact sin_h_ne H (by simpa using hl.symm)

theorem rad_eq (H : Hyp rx ry wx wy h) : Rad (Sx cx cy rx ry wx wy m h) (Sy cx cy rx ry wx wy m h) (Ex cx cy rx ry wx wy m h) (Ey cx cy rx ry wx wy m h) rx ry wx wy = cos h ^ 2 / sin h ^ 2 := by
  unfold Rad
  rw [radicand_eq _ _ _ _ (by rw [rx_eq H]; exact H.hrx.ne') (by rw [ry_eq H]; exact H.hry.ne')]
  · have : radiusCheck (X1 (Sx cx cy rx ry wx wy m h) (Sy cx cy rx ry wx wy m h) (Ex cx cy rx ry wx wy m h) (Ey cx cy rx ry wx wy m h) wx wy) (Y1 (Sx cx cy rx ry wx wy m h) (Sy cx cy rx ry wx wy m h) (Ex cx cy rx ry wx wy m h) (Ey cx cy rx ry wx wy m h) wx wy) (RX (Sx cx cy rx ry wx wy m h) (Sy cx cy rx ry wx wy m h) (Ex cx cy rx ry wx wy m h) (Ey cx cy rx ry wx wy m h) rx ry wx wy) (RY (Sx cx cy rx ry wx wy m h) (Sy cx cy rx ry wx wy m h) (Ex cx cy rx ry wx wy m h) (Ey cx cy rx ry wx wy m h) rx ry wx wy) = sin h ^ 2 := lam'_eq H
    rw [this]
    congr 1
    linarith [Real.sin_sq_add_cos_sq h]
  · have : radiusCheck (X1 (Sx cx cy rx ry wx wy m h) (Sy cx cy rx ry wx wy m h) (Ex cx cy rx ry wx wy m h) (Ey cx cy rx ry wx wy m h) wx wy) (Y1 (Sx cx cy rx ry wx wy m h) (Sy cx cy rx ry wx wy m h) (Ex cx cy rx ry wx wy m h) (Ey cx cy rx ry wx wy m h) wx wy) (RX (Sx cx cy rx ry wx wy m h) (Sy cx cy rx ry wx wy m h) (Ex cx cy rx ry wx wy m h) (Ey cx cy rx ry wx wy m h) rx ry wx wy) (RY (Sx cx cy rx ry wx wy m h) (Sy cx cy rx ry wx wy m h) (Ex cx cy rx ry wx wy m h) (Ey cx cy rx ry wx wy m h) rx ry wx wy) = sin h ^ 2 := lam'_eq H
    rw [this]; exact pow_ne_zero 2 (sin_h_ne H)

theorem rho_eq (H : Hyp rx ry wx wy h) : Rho (Sx cx cy rx ry wx wy m h) (Sy cx cy rx ry wx wy m h) (Ex cx cy rx ry wx wy m h) (Ey cx cy rx ry wx wy m h) rx ry wx wy = |cos h| / |sin h| := by
  have hr := Rho_sq (adm (cx := cx) (cy := cy) (m := m) H)
  rw [rad_eq H] at hr
  have hn := Rho_nonneg (sx := Sx cx cy rx ry wx wy m h) (sy := Sy cx cy rx ry wx wy m h) (ex := Ex cx cy rx ry wx wy m h)
    (ey := Ey cx cy rx ry wx wy m h) (rx0 := rx) (ry0 := ry) (wx := wx) (wy := wy)
  have hq : 0 ≤ |cos h| / |sin h| := div_nonneg (abs_nonneg _) (abs_nonneg _)
  have hsq : (|cos h| / |sin h|) * (|cos h| / |sin h|) = cos h ^ 2 / sin h ^ 2 := by
    rw [div_mul_div_comm, ← sq, ← sq, sq_abs, sq_abs]
  nlinarith [sq_nonneg (Rho (Sx cx cy rx ry wx wy m h) (Sy cx cy rx ry wx wy m h) (Ex cx cy rx ry wx wy m h) (Ey cx cy rx ry wx wy m h) rx ry wx wy - |cos h| / |sin h|), sq_nonneg (Rho (Sx cx cy rx ry wx wy m h) (Sy cx cy rx ry wx wy m h) (Ex cx cy rx ry wx wy m h) (Ey cx cy rx ry wx wy m h) rx ry wx wy + |cos h| / |sin h|)]


variable {large sweep : Bool}

theorem cpx_eq (H : Hyp rx ry wx wy h) (hL : (large = true → π ≤ |2 * h|) ∧ (large = false → |2 * h| ≤ π)) (hS : sweep = true ↔ 0 < 2 * h) :
    CPx (Sx cx cy rx ry wx wy m h) (Sy cx cy rx ry wx wy m h) (Ex cx cy rx ry wx wy m h) (Ey cx cy rx ry wx wy m h) rx ry wx wy large sweep = -(rx * (cos m * cos h)) := by
  have hs := sign_identity h large sweep H.h0 H.h1 H.h2 hL hS
  unfold CPx
  rw [rho_eq H, rx_eq H, ry_eq H, y1_eq H]
  have hry := H.hry.ne'
  field_simp
  field_simp at hs
  linear_combination (-(rx * cos m)) * hs

theorem cpy_eq (H : Hyp rx ry wx wy h) (hL : (large = true → π ≤ |2 * h|) ∧ (large = false → |2 * h| ≤ π)) (hS : sweep = true ↔ 0 < 2 * h) :
    CPy (Sx cx cy rx ry wx wy m h) (Sy cx cy rx ry wx wy m h) (Ex cx cy rx ry wx wy m h) (Ey cx cy rx ry wx wy m h) rx ry wx wy large sweep = -(ry * (sin m * cos h)) := by
  have hs := sign_identity h large sweep H.h0 H.h1 H.h2 hL hS
  unfold CPy
  rw [rho_eq H, rx_eq H, ry_eq H, x1_eq H]
  have hrx := H.hrx.ne'
  field_simp
  field_simp at hs
  linear_combination (-(ry * sin m)) * hs


theorem u_eq (H : Hyp rx ry wx wy h) (hL : (large = true → π ≤ |2 * h|) ∧ (large = false → |2 * h| ≤ π)) (hS : sweep = true ↔ 0 < 2 * h) :
    U1x (Sx cx cy rx ry wx wy m h) (Sy cx cy rx ry wx wy m h) (Ex cx cy rx ry wx wy m h) (Ey cx cy rx ry wx wy m h) rx ry wx wy large sweep = cos (m - h) ∧ U1y (Sx cx cy rx ry wx wy m h) (Sy cx cy rx ry wx wy m h) (Ex cx cy rx ry wx wy m h) (Ey cx cy rx ry wx wy m h) rx ry wx wy large sweep = sin (m - h) ∧
    U2x (Sx cx cy rx ry wx wy m h) (Sy cx cy rx ry wx wy m h) (Ex cx cy rx ry wx wy m h) (Ey cx cy rx ry wx wy m h) rx ry wx wy large sweep = cos (m + h) ∧ U2y (Sx cx cy rx ry wx wy m h) (Sy cx cy rx ry wx wy m h) (Ex cx cy rx ry wx wy m h) (Ey cx cy rx ry wx wy m h) rx ry wx wy large sweep = sin (m + h) := by
  have hrx := H.hrx.ne'
  have hry := H.hry.ne'
  unfold U1x U1y U2x U2y
  rw [cpx_eq H hL hS, cpy_eq H hL hS, x1_eq H, y1_eq H, rx_eq H, ry_eq H]
  simp only [cos_sub, cos_add, sin_sub, sin_add]
  refine ⟨?_, ?_, ?_, ?_⟩ <;> field_simp <;> ring

/-- the principal angle of `2h` (degrees), adjusted by the flags as the code does, is `2h` in degrees -/
theorem adjust_eq_iff (H : Hyp rx ry wx wy h) (hL : large = true ↔ π < |2 * h|) (hS : sweep = true ↔ 0 < 2 * h) :
    adjust (SvgVerif.Props.C04.thetaDeg (cos (2 * h)) (sin (2 * h))) large sweep = 2 * h * 180 / π := by
  have hπ := Real.pi_pos
  have h1 := H.h1
  have h2 := H.h2
  rcases lt_or_gt_of_ne H.h0 with hneg | hpos
  · have hsw : sweep = false := by
      cases sweep with
      | false => rfl
      | true => have := hS.mp rfl; linarith
    have habs : |2 * h| = -(2 * h) := abs_of_neg (by linarith)
    by_cases hl : π < |2 * h|
    · -- -2π < 2h < -π : principal angle is 2h + 2π
      have hlg : large = true := hL.mpr hl
      rw [habs] at hl
      have e : SvgVerif.Props.C04.thetaDeg (cos (2 * h)) (sin (2 * h)) = (2 * h + 2 * π) * 180 / π := by
        rw [← Real.cos_add_two_pi, ← Real.sin_add_two_pi]
        exact thetaDeg_cos_sin _ (by linarith) (by linarith)
      rw [e, hlg, hsw]
      unfold adjust
      have hpos' : (0 : ℝ) ≤ (2 * h + 2 * π) * 180 / π := by
        apply div_nonneg _ hπ.le; nlinarith
      simp only [Bool.not_false, Bool.true_and, decide_eq_true_eq, hpos', if_true]
      field_simp; ring
    · have hlg : large = false := by
        cases large with
        | false => rfl
        | true => exact absurd (hL.mp rfl) hl
      rw [habs] at hl
      have hle : -π ≤ 2 * h := by linarith
      rcases hle.lt_or_eq with hlt | heq
      · have e : SvgVerif.Props.C04.thetaDeg (cos (2 * h)) (sin (2 * h)) = (2 * h) * 180 / π :=
          thetaDeg_cos_sin _ hlt (by linarith)
        rw [e, hlg, hsw]
        unfold adjust
        have hneg' : ¬ (0 : ℝ) ≤ 2 * h * 180 / π := by
          rw [not_le]; apply div_neg_of_neg_of_pos _ hπ; nlinarith
        simp only [Bool.not_false, Bool.true_and, decide_eq_true_eq, hneg', if_false, Bool.false_and]
        simp
      · -- 2h = -π : principal angle 180, adjusted to -180
        have e : SvgVerif.Props.C04.thetaDeg (cos (2 * h)) (sin (2 * h)) = 180 := by
          rw [← heq, Real.cos_neg, Real.sin_neg, Real.cos_pi, Real.sin_pi]
          unfold SvgVerif.Props.C04.thetaDeg; norm_num
        rw [e, hlg, hsw, ← heq]
        unfold adjust
        norm_num
        field_simp
  · have hsw : sweep = true := hS.mpr (by linarith)
    have habs : |2 * h| = 2 * h := abs_of_pos (by linarith)
    by_cases hl : π < |2 * h|
    · have hlg : large = true := hL.mpr hl
      rw [habs] at hl
      have e : SvgVerif.Props.C04.thetaDeg (cos (2 * h)) (sin (2 * h)) = (2 * h - 2 * π) * 180 / π := by
        rw [← Real.cos_sub_two_pi, ← Real.sin_sub_two_pi]
        exact thetaDeg_cos_sin _ (by linarith) (by linarith)
      rw [e, hlg, hsw]
      unfold adjust
      have hneg' : (2 * h - 2 * π) * 180 / π ≤ 0 := by
        apply div_nonpos_of_nonpos_of_nonneg _ hπ.le; nlinarith
      simp only [Bool.not_true, Bool.false_and, Bool.false_eq_true, if_false, Bool.true_and, decide_eq_true_eq, hneg',
        if_true]
      field_simp; ring
    · have hlg : large = false := by
        cases large with
        | false => rfl
        | true => exact absurd (hL.mp rfl) hl
      rw [habs] at hl
      have e : SvgVerif.Props.C04.thetaDeg (cos (2 * h)) (sin (2 * h)) = (2 * h) * 180 / π :=
        thetaDeg_cos_sin _ (by linarith) (by linarith)
      rw [e, hlg, hsw]
      unfold adjust
      simp


theorem adjust_eq (H : Hyp rx ry wx wy h) (hL : (large = true → π ≤ |2 * h|) ∧ (large = false → |2 * h| ≤ π))
    (hS : sweep = true ↔ 0 < 2 * h) :
    adjust (SvgVerif.Props.C04.thetaDeg (cos (2 * h)) (sin (2 * h))) large sweep = 2 * h * 180 / π := by
  have hπ := Real.pi_pos
  by_cases he : |2 * h| = π
  · rcases abs_eq hπ.le |>.mp he with e | e
    · have hsw : sweep = true := hS.mpr (by linarith)
      have e180 : SvgVerif.Props.C04.thetaDeg (cos (2 * h)) (sin (2 * h)) = 180 := by
        rw [e, Real.cos_pi, Real.sin_pi]; unfold SvgVerif.Props.C04.thetaDeg; norm_num
      rw [e180, hsw, e]
      unfold adjust
      cases large <;> norm_num <;> field_simp
    · have hsw : sweep = false := by
        cases sweep with
        | false => rfl
        | true => have := hS.mp rfl; linarith
      have e180 : SvgVerif.Props.C04.thetaDeg (cos (2 * h)) (sin (2 * h)) = 180 := by
        rw [e, Real.cos_neg, Real.sin_neg, Real.cos_pi, Real.sin_pi]; unfold SvgVerif.Props.C04.thetaDeg; norm_num
      rw [e180, hsw, e]
      unfold adjust
      norm_num
      field_simp
  · exact adjust_eq_iff H (flags_iff h large he hL) hS

/-- **Round trip F.6.4 → F.6.5.**  Take ANY elliptical arc in centre form — centre `(cx, cy)`, radii `rx, ry > 0`,
axis direction `w = e^{iφ}`, eccentric angles from `m − h` to `m + h` with `0 < |2h| < 2π` — hand its two end
points, radii, rotation and the flags `sweep = (2h > 0)`, `large = (|2h| > π)` (either value when the sweep is
exactly half a turn) to `Arc._parameterize`: it stores
exactly the radii, the centre, the start angle (normalised to `(−180, 180]` degrees) and the sweep `2h` (degrees)
the arc was built from. -/
theorem arcParams_roundtrip (H : Hyp rx ry wx wy h) (hL : (large = true → π ≤ |2 * h|) ∧ (large = false → |2 * h| ≤ π)) (hS : sweep = true ↔ 0 < 2 * h) :
    arcParams (Sx cx cy rx ry wx wy m h) (Sy cx cy rx ry wx wy m h) (Ex cx cy rx ry wx wy m h) (Ey cx cy rx ry wx wy m h) rx ry wx wy large sweep
      = ⟨rx, ry, cx, cy, SvgVerif.Props.C04.thetaDeg (cos (m - h)) (sin (m - h)), 2 * h * 180 / π⟩ := by
  have hA := adm (cx := cx) (cy := cy) (m := m) H
  rw [arcParams_eq large sweep hA]
  obtain ⟨u1, u2, u3, u4⟩ := u_eq (cx := cx) (cy := cy) (m := m) H hL hS
  have hdr := (deltaRaw_eq _ _ _ _ (u1_unit (large := large) (sweep := sweep) hA) (u2_unit (large := large) (sweep := sweep) hA)).1
  rw [hdr, thetaOf_eq, u1, u2, u3, u4, rx_eq H, ry_eq H, cpx_eq H hL hS, cpy_eq H hL hS]
  have hdot : cos (m - h) * cos (m + h) + sin (m - h) * sin (m + h) = cos (2 * h) := by
    rw [show 2 * h = (m + h) - (m - h) by ring, cos_sub (m + h) (m - h)]; ring
  have hdet : cos (m - h) * sin (m + h) - sin (m - h) * cos (m + h) = sin (2 * h) := by
    rw [show 2 * h = (m + h) - (m - h) by ring, sin_sub (m + h) (m - h)]; ring
  rw [hdot, hdet, adjust_eq H hL hS]
  congr 1
  · simp only [Sx, Ex, cos_sub, cos_add, sin_sub, sin_add]; ring
  · simp only [Sy, Ey, cos_sub, cos_add, sin_sub, sin_add]; ring

/-- hence the rebuilt arc is the SAME parameterised curve: `Arc.point(t)` (traced, `Gen.C04`) of the parameters
`_parameterize` stores is the point of the original arc at eccentric angle `(m − h) + t·2h`, for every `t` -/
theorem roundtrip_point (H : Hyp rx ry wx wy h) (hL : (large = true → π ≤ |2 * h|) ∧ (large = false → |2 * h| ≤ π)) (hS : sweep = true ↔ 0 < 2 * h)
    (rot t : ℝ) :
    let p := arcParams (Sx cx cy rx ry wx wy m h) (Sy cx cy rx ry wx wy m h) (Ex cx cy rx ry wx wy m h) (Ey cx cy rx ry wx wy m h) rx ry wx wy large sweep
    Gen.C04.point_x p.theta p.delta p.rx p.ry wx wy rot p.cx p.cy π t
      = cx + wx * (rx * cos (m - h + t * (2 * h))) - wy * (ry * sin (m - h + t * (2 * h))) ∧
    Gen.C04.point_y p.theta p.delta p.rx p.ry wx wy rot p.cx p.cy π t
      = cy + wy * (rx * cos (m - h + t * (2 * h))) + wx * (ry * sin (m - h + t * (2 * h))) := by
  intro p
  have hp : p = _ := arcParams_roundtrip (cx := cx) (cy := cy) (m := m) H hL hS
  have hπ := Real.pi_ne_zero
  obtain ⟨ct, st⟩ := SvgVerif.Props.C04.theta_correct (cos (m - h)) (sin (m - h)) (by
    have := Real.cos_sq_add_sin_sq (m - h); linarith)
  have hang : (p.theta + t * p.delta) * π / 180
      = SvgVerif.Props.C04.thetaDeg (cos (m - h)) (sin (m - h)) * π / 180 + t * (2 * h) := by
    rw [hp]; field_simp
  simp only [Gen.C04.point_x, Gen.C04.point_y, hang, cos_add, sin_add, ct, st]
  rw [hp]
  constructor <;> ring


/-! ## the operations that rebuild an arc from end points -/

/-- the point of the centre-form arc at parameter `t` -/
noncomputable def cfX (cx cy rx ry wx wy m h t : ℝ) : ℝ := cx + wx * (rx * cos (m - h + t * (2 * h))) - wy * (ry * sin (m - h + t * (2 * h)))
noncomputable def cfY (cx cy rx ry wx wy m h t : ℝ) : ℝ := cy + wy * (rx * cos (m - h + t * (2 * h))) + wx * (ry * sin (m - h + t * (2 * h)))

theorem hyp_neg (H : Hyp rx ry wx wy h) : Hyp rx ry wx wy (-h) :=
  ⟨H.hw, H.hrx, H.hry, neg_ne_zero.mpr H.h0, by linarith [H.h2], by linarith [H.h1]⟩

/-- **`Arc.reversed()`** = `Arc(end, radius, rotation, large_arc, not sweep, start)`: the rebuilt arc at `t` is the
original at `1 - t` -/
theorem reversed_point (H : Hyp rx ry wx wy h) (hL : (large = true → π ≤ |2 * h|) ∧ (large = false → |2 * h| ≤ π))
    (hS : sweep = true ↔ 0 < 2 * h) (rot t : ℝ) :
    let p := arcParams (Ex cx cy rx ry wx wy m h) (Ey cx cy rx ry wx wy m h) (Sx cx cy rx ry wx wy m h) (Sy cx cy rx ry wx wy m h)
      rx ry wx wy large (!sweep)
    Gen.C04.point_x p.theta p.delta p.rx p.ry wx wy rot p.cx p.cy π t = cfX cx cy rx ry wx wy m h (1 - t) ∧
    Gen.C04.point_y p.theta p.delta p.rx p.ry wx wy rot p.cx p.cy π t = cfY cx cy rx ry wx wy m h (1 - t) := by
  have e1 : Ex cx cy rx ry wx wy m h = Sx cx cy rx ry wx wy m (-h) := by simp [Ex, Sx, sub_neg_eq_add]
  have e2 : Ey cx cy rx ry wx wy m h = Sy cx cy rx ry wx wy m (-h) := by simp [Ey, Sy, sub_neg_eq_add]
  have e3 : Sx cx cy rx ry wx wy m h = Ex cx cy rx ry wx wy m (-h) := by simp [Ex, Sx, ← sub_eq_add_neg]
  have e4 : Sy cx cy rx ry wx wy m h = Ey cx cy rx ry wx wy m (-h) := by simp [Ey, Sy, ← sub_eq_add_neg]
  rw [e1, e2, e3, e4]
  have hL' : (large = true → π ≤ |2 * -h|) ∧ (large = false → |2 * -h| ≤ π) := by
    rw [mul_neg, abs_neg]; exact hL
  have hS' : (!sweep) = true ↔ 0 < 2 * -h := by
    have h0 := H.h0
    cases sweep with
    | true =>
      have := hS.mp rfl
      simp only [Bool.not_true, Bool.false_eq_true, false_iff, not_lt]; linarith
    | false =>
      have : ¬ 0 < 2 * h := fun hh => by have := hS.mpr hh; simp at this
      have hlt : 2 * h < 0 := lt_of_le_of_ne (not_lt.mp this) (by intro e; apply h0; linarith)
      simp only [Bool.not_false, true_iff]; linarith
  have := roundtrip_point (cx := cx) (cy := cy) (m := m) (hyp_neg H) hL' hS' rot t
  simp only at this ⊢
  rw [this.1, this.2]
  simp only [cfX, cfY]
  constructor <;> (congr 3 <;> ring)

/-- **`Arc.cropped(t0, t1)`** = `Arc(point(t0), radius, rotation, new_large_arc, sweep, point(t1))` with
`new_large_arc = (|delta·(t1 − t0)| > 180)`, for `0 ≤ t0 < t1 ≤ 1`: the rebuilt arc at `u` is the original at
`t0 + u·(t1 − t0)` -/
theorem cropped_point (H : Hyp rx ry wx wy h) (hS : sweep = true ↔ 0 < 2 * h) (t0 t1 : ℝ) (h0 : 0 ≤ t0) (h01 : t0 < t1)
    (h1 : t1 ≤ 1) (newLarge : Bool) (hnl : newLarge = true ↔ π < |2 * h * (t1 - t0)|) (rot u : ℝ) :
    let p := arcParams (cfX cx cy rx ry wx wy m h t0) (cfY cx cy rx ry wx wy m h t0) (cfX cx cy rx ry wx wy m h t1)
      (cfY cx cy rx ry wx wy m h t1) rx ry wx wy newLarge sweep
    Gen.C04.point_x p.theta p.delta p.rx p.ry wx wy rot p.cx p.cy π u = cfX cx cy rx ry wx wy m h (t0 + u * (t1 - t0)) ∧
    Gen.C04.point_y p.theta p.delta p.rx p.ry wx wy rot p.cx p.cy π u = cfY cx cy rx ry wx wy m h (t0 + u * (t1 - t0)) := by
  -- the cropped arc in centre form: half sweep h' = (t1 - t0) h, mid angle m' = (m - h) + (t0 + t1) h
  set h' := (t1 - t0) * h with hh'
  set m' := m - h + (t0 + t1) * h with hm'
  have hd : 0 < t1 - t0 := by linarith
  have hd1 : t1 - t0 ≤ 1 := by linarith
  have H' : Hyp rx ry wx wy h' := by
    refine ⟨H.hw, H.hrx, H.hry, mul_ne_zero hd.ne' H.h0, ?_, ?_⟩
    · have := H.h1; have := H.h2
      rcases le_or_gt 0 h with hp | hn
      · have : 0 ≤ (t1 - t0) * h := mul_nonneg hd.le hp
        linarith [Real.pi_pos]
      · nlinarith
    · have := H.h1; have := H.h2
      rcases le_or_gt 0 h with hp | hn
      · nlinarith
      · have : (t1 - t0) * h ≤ 0 := mul_nonpos_of_nonneg_of_nonpos hd.le hn.le
        linarith [Real.pi_pos]
  have e1 : cfX cx cy rx ry wx wy m h t0 = Sx cx cy rx ry wx wy m' h' := by
    simp only [cfX, Sx]; congr 3 <;> (rw [hm', hh']; ring)
  have e2 : cfY cx cy rx ry wx wy m h t0 = Sy cx cy rx ry wx wy m' h' := by
    simp only [cfY, Sy]; congr 3 <;> (rw [hm', hh']; ring)
  have e3 : cfX cx cy rx ry wx wy m h t1 = Ex cx cy rx ry wx wy m' h' := by
    simp only [cfX, Ex]; congr 3 <;> (rw [hm', hh']; ring)
  have e4 : cfY cx cy rx ry wx wy m h t1 = Ey cx cy rx ry wx wy m' h' := by
    simp only [cfY, Ey]; congr 3 <;> (rw [hm', hh']; ring)
  rw [e1, e2, e3, e4]
  have e2h : 2 * h' = 2 * h * (t1 - t0) := by rw [hh']; ring
  have hL' : (newLarge = true → π ≤ |2 * h'|) ∧ (newLarge = false → |2 * h'| ≤ π) := by
    rw [e2h]
    constructor
    · intro hl; exact (hnl.mp hl).le
    · intro hl
      by_contra hcon
      have := hnl.mpr (not_le.mp hcon)
      rw [hl] at this; exact absurd this (by simp)
  have hS' : sweep = true ↔ 0 < 2 * h' := by
    rw [hS, e2h]
    constructor
    · intro hp; exact mul_pos hp hd
    · intro hp; by_contra hcon
      have : 2 * h * (t1 - t0) ≤ 0 := mul_nonpos_of_nonpos_of_nonneg (not_lt.mp hcon) hd.le
      linarith
  have := roundtrip_point (cx := cx) (cy := cy) (m := m') H' hL' hS' rot u
  simp only at this ⊢
  rw [this.1, this.2]
  simp only [cfX, cfY]
  constructor <;> (congr 3 <;> (rw [hm', hh']; ring))

/-- **`translate(arc, z)`** = `Arc(start + z, radius, rotation, large_arc, sweep, end + z)`: the rebuilt arc is the
original moved by `z` -/
theorem translated_point (H : Hyp rx ry wx wy h) (hL : (large = true → π ≤ |2 * h|) ∧ (large = false → |2 * h| ≤ π))
    (hS : sweep = true ↔ 0 < 2 * h) (zx zy rot t : ℝ) :
    let p := arcParams (Sx cx cy rx ry wx wy m h + zx) (Sy cx cy rx ry wx wy m h + zy) (Ex cx cy rx ry wx wy m h + zx)
      (Ey cx cy rx ry wx wy m h + zy) rx ry wx wy large sweep
    Gen.C04.point_x p.theta p.delta p.rx p.ry wx wy rot p.cx p.cy π t = cfX cx cy rx ry wx wy m h t + zx ∧
    Gen.C04.point_y p.theta p.delta p.rx p.ry wx wy rot p.cx p.cy π t = cfY cx cy rx ry wx wy m h t + zy := by
  have e1 : Sx cx cy rx ry wx wy m h + zx = Sx (cx + zx) (cy + zy) rx ry wx wy m h := by simp only [Sx]; ring
  have e2 : Sy cx cy rx ry wx wy m h + zy = Sy (cx + zx) (cy + zy) rx ry wx wy m h := by simp only [Sy]; ring
  have e3 : Ex cx cy rx ry wx wy m h + zx = Ex (cx + zx) (cy + zy) rx ry wx wy m h := by simp only [Ex]; ring
  have e4 : Ey cx cy rx ry wx wy m h + zy = Ey (cx + zx) (cy + zy) rx ry wx wy m h := by simp only [Ey]; ring
  rw [e1, e2, e3, e4]
  have := roundtrip_point (cx := cx + zx) (cy := cy + zy) (m := m) H hL hS rot t
  simp only at this ⊢
  rw [this.1, this.2]
  simp only [cfX, cfY]
  constructor <;> ring


/-- **`rotate(arc, degs, origin)`** = `Arc(rot(start), radius, rotation + degs, large_arc, sweep, rot(end))` with
`rot(z) = a·(z − o) + o`, `a = e^{i·degs}` = `(ax, ay)`: the rebuilt arc is the original rotated about `o` -/
theorem rotated_point (H : Hyp rx ry wx wy h) (hL : (large = true → π ≤ |2 * h|) ∧ (large = false → |2 * h| ≤ π))
    (hS : sweep = true ↔ 0 < 2 * h) (ax ay ox oy : ℝ) (ha : ax * ax + ay * ay = 1) (rot t : ℝ) :
    let R := fun (x y : ℝ) => (ax * (x - ox) - ay * (y - oy) + ox, ay * (x - ox) + ax * (y - oy) + oy)
    let S' := R (Sx cx cy rx ry wx wy m h) (Sy cx cy rx ry wx wy m h)
    let E' := R (Ex cx cy rx ry wx wy m h) (Ey cx cy rx ry wx wy m h)
    let wx' := wx * ax - wy * ay
    let wy' := wy * ax + wx * ay
    let p := arcParams S'.1 S'.2 E'.1 E'.2 rx ry wx' wy' large sweep
    (Gen.C04.point_x p.theta p.delta p.rx p.ry wx' wy' rot p.cx p.cy π t,
      Gen.C04.point_y p.theta p.delta p.rx p.ry wx' wy' rot p.cx p.cy π t)
      = R (cfX cx cy rx ry wx wy m h t) (cfY cx cy rx ry wx wy m h t) := by
  intro R S' E' wx' wy' p
  have H' : Hyp rx ry wx' wy' h :=
    ⟨by simp only [wx', wy']; linear_combination (wx * wx + wy * wy) * ha + H.hw, H.hrx, H.hry, H.h0, H.h1, H.h2⟩
  have e1 : S'.1 = Sx (R cx cy).1 (R cx cy).2 rx ry wx' wy' m h := by simp only [S', R, Sx, Sy, wx', wy']; ring
  have e2 : S'.2 = Sy (R cx cy).1 (R cx cy).2 rx ry wx' wy' m h := by simp only [S', R, Sx, Sy, wx', wy']; ring
  have e3 : E'.1 = Ex (R cx cy).1 (R cx cy).2 rx ry wx' wy' m h := by simp only [E', R, Ex, Ey, wx', wy']; ring
  have e4 : E'.2 = Ey (R cx cy).1 (R cx cy).2 rx ry wx' wy' m h := by simp only [E', R, Ex, Ey, wx', wy']; ring
  have := roundtrip_point (cx := (R cx cy).1) (cy := (R cx cy).2) (m := m) H' hL hS rot t
  simp only [p, e1, e2, e3, e4] at this ⊢
  rw [this.1, this.2]
  simp only [R, cfX, cfY, wx', wy']
  ext <;> simp only <;> ring

/-- **`scale(arc, s, origin)`** (uniform, `s ≠ 0`) = `Arc(sc(start), |s|·radius, rotation, large_arc, sweep, sc(end))`
with `sc(z) = s·(z − o) + o`: the rebuilt arc is the original scaled about `o` (for `s < 0` the eccentric angles
shift by half a turn, the flags stay) -/
theorem scaled_point (H : Hyp rx ry wx wy h) (hL : (large = true → π ≤ |2 * h|) ∧ (large = false → |2 * h| ≤ π))
    (hS : sweep = true ↔ 0 < 2 * h) (sc ox oy : ℝ) (hsc : sc ≠ 0) (rot t : ℝ) :
    let p := arcParams (sc * (Sx cx cy rx ry wx wy m h - ox) + ox) (sc * (Sy cx cy rx ry wx wy m h - oy) + oy)
      (sc * (Ex cx cy rx ry wx wy m h - ox) + ox) (sc * (Ey cx cy rx ry wx wy m h - oy) + oy)
      (|sc| * rx) (|sc| * ry) wx wy large sweep
    Gen.C04.point_x p.theta p.delta p.rx p.ry wx wy rot p.cx p.cy π t = sc * (cfX cx cy rx ry wx wy m h t - ox) + ox ∧
    Gen.C04.point_y p.theta p.delta p.rx p.ry wx wy rot p.cx p.cy π t = sc * (cfY cx cy rx ry wx wy m h t - oy) + oy := by
  have habs : 0 < |sc| := abs_pos.mpr hsc
  have H' : Hyp (|sc| * rx) (|sc| * ry) wx wy h :=
    ⟨H.hw, mul_pos habs H.hrx, mul_pos habs H.hry, H.h0, H.h1, H.h2⟩
  rcases lt_or_gt_of_ne hsc with hneg | hpos
  · -- negative factor: |s| = -s and the angles shift by π
    have ea : |sc| = -sc := abs_of_neg hneg
    have e1 : sc * (Sx cx cy rx ry wx wy m h - ox) + ox
        = Sx (sc * (cx - ox) + ox) (sc * (cy - oy) + oy) (|sc| * rx) (|sc| * ry) wx wy (m + π) h := by
      simp only [Sx, ea, show m + π - h = (m - h) + π by ring, cos_add_pi, sin_add_pi]; ring
    have e2 : sc * (Sy cx cy rx ry wx wy m h - oy) + oy
        = Sy (sc * (cx - ox) + ox) (sc * (cy - oy) + oy) (|sc| * rx) (|sc| * ry) wx wy (m + π) h := by
      simp only [Sy, ea, show m + π - h = (m - h) + π by ring, cos_add_pi, sin_add_pi]; ring
    have e3 : sc * (Ex cx cy rx ry wx wy m h - ox) + ox
        = Ex (sc * (cx - ox) + ox) (sc * (cy - oy) + oy) (|sc| * rx) (|sc| * ry) wx wy (m + π) h := by
      simp only [Ex, ea, show m + π + h = (m + h) + π by ring, cos_add_pi, sin_add_pi]; ring
    have e4 : sc * (Ey cx cy rx ry wx wy m h - oy) + oy
        = Ey (sc * (cx - ox) + ox) (sc * (cy - oy) + oy) (|sc| * rx) (|sc| * ry) wx wy (m + π) h := by
      simp only [Ey, ea, show m + π + h = (m + h) + π by ring, cos_add_pi, sin_add_pi]; ring
    rw [e1, e2, e3, e4]
    have := roundtrip_point (cx := sc * (cx - ox) + ox) (cy := sc * (cy - oy) + oy) (m := m + π) H' hL hS rot t
    simp only at this ⊢
    rw [this.1, this.2]
    simp only [cfX, cfY, ea, show m + π - h + t * (2 * h) = (m - h + t * (2 * h)) + π by ring, cos_add_pi, sin_add_pi]
    constructor <;> ring
  · have ea : |sc| = sc := abs_of_pos hpos
    have e1 : sc * (Sx cx cy rx ry wx wy m h - ox) + ox
        = Sx (sc * (cx - ox) + ox) (sc * (cy - oy) + oy) (|sc| * rx) (|sc| * ry) wx wy m h := by
      simp only [Sx, ea]; ring
    have e2 : sc * (Sy cx cy rx ry wx wy m h - oy) + oy
        = Sy (sc * (cx - ox) + ox) (sc * (cy - oy) + oy) (|sc| * rx) (|sc| * ry) wx wy m h := by
      simp only [Sy, ea]; ring
    have e3 : sc * (Ex cx cy rx ry wx wy m h - ox) + ox
        = Ex (sc * (cx - ox) + ox) (sc * (cy - oy) + oy) (|sc| * rx) (|sc| * ry) wx wy m h := by
      simp only [Ex, ea]; ring
    have e4 : sc * (Ey cx cy rx ry wx wy m h - oy) + oy
        = Ey (sc * (cx - ox) + ox) (sc * (cy - oy) + oy) (|sc| * rx) (|sc| * ry) wx wy m h := by
      simp only [Ey, ea]; ring
    rw [e1, e2, e3, e4]
    have := roundtrip_point (cx := sc * (cx - ox) + ox) (cy := sc * (cy - oy) + oy) (m := m) H' hL hS rot t
    simp only at this ⊢
    rw [this.1, this.2]
    simp only [cfX, cfY, ea]
    constructor <;> ring


/-! ## arcs as the constructor builds them are centre-form arcs -/
section built
variable {sx sy ex ey rx0 ry0 : ℝ}

/-- the half sweep and mid angle (radians) of the stored parameters -/
noncomputable def hOf (p : Params ℝ) : ℝ := p.delta * π / 360
noncomputable def mOf (p : Params ℝ) : ℝ := p.theta * π / 180 + p.delta * π / 360

/-- **every arc the constructor accepts is a centre-form arc**: with `p` the stored parameters, the given end
points are the centre-form points at the angles `theta` and `theta + delta`, the half sweep satisfies
`0 < |h| < π`, and the flags are the ones the round-trip theorem asks for -/
theorem built_centerform (hA : Admissible sx sy ex ey rx0 ry0 wx wy) (hrx : 0 < rx0) (hry : 0 < ry0) :
    ∀ p, p = arcParams sx sy ex ey rx0 ry0 wx wy large sweep →
    Sx p.cx p.cy p.rx p.ry wx wy (mOf p) (hOf p) = sx ∧ Sy p.cx p.cy p.rx p.ry wx wy (mOf p) (hOf p) = sy ∧
    Ex p.cx p.cy p.rx p.ry wx wy (mOf p) (hOf p) = ex ∧ Ey p.cx p.cy p.rx p.ry wx wy (mOf p) (hOf p) = ey ∧
    Hyp p.rx p.ry wx wy (hOf p) ∧
    ((large = true → π ≤ |2 * hOf p|) ∧ (large = false → |2 * hOf p| ≤ π)) ∧ (sweep = true ↔ 0 < 2 * hOf p) := by
  intro p hpdef
  subst hpdef
  set p := arcParams sx sy ex ey rx0 ry0 wx wy large sweep with hpd
  have hπ := Real.pi_pos
  obtain ⟨z1, z2⟩ := point_zero (large := large) (sweep := sweep) hA 0
  obtain ⟨o1, o2⟩ := point_one (large := large) (sweep := sweep) hA 0
  have ea : mOf p - hOf p = (p.theta + 0 * p.delta) * π / 180 := by simp only [mOf, hOf]; ring
  have eb : mOf p + hOf p = (p.theta + 1 * p.delta) * π / 180 := by simp only [mOf, hOf]; ring
  have hp := arcParams_eq large sweep hA
  have hprx : 0 < p.rx := by
    show 0 < (arcParams sx sy ex ey rx0 ry0 wx wy large sweep).rx
    rw [hp]; exact mul_pos hrx (scaleF_pos hA)
  have hpry : 0 < p.ry := by
    show 0 < (arcParams sx sy ex ey rx0 ry0 wx wy large sweep).ry
    rw [hp]; exact mul_pos hry (scaleF_pos hA)
  have e2h : 2 * hOf p = p.delta * π / 180 := by simp only [hOf]; ring
  -- the facts about delta
  have hd : (0 < p.delta ↔ sweep = true) ∧ (180 < |p.delta| → large = true) ∧ (|p.delta| < 180 → large = false) ∧
      |p.delta| < 360 ∧ p.delta ≠ 0 := by
    rcases (Rho_nonneg (sx := sx) (sy := sy) (ex := ex) (ey := ey) (rx0 := rx0) (ry0 := ry0) (wx := wx) (wy := wy)).lt_or_eq with hpos | hz
    · obtain ⟨d1, d2, d3, d4⟩ := delta_sweep_large (large := large) (sweep := sweep) hA hpos
      refine ⟨d1, d2.mp, ?_, d3, d4⟩
      intro hlt
      cases hl : large with
      | false => rfl
      | true => have := d2.mpr hl; linarith
    · have he := delta_exact_fit (large := large) (sweep := sweep) hA hz.symm
      show (0 < (arcParams sx sy ex ey rx0 ry0 wx wy large sweep).delta ↔ sweep = true) ∧ _
      rw [he]
      cases sweep <;> simp <;> norm_num
  obtain ⟨d1, d2, d3, d4, d5⟩ := hd
  refine ⟨?_, ?_, ?_, ?_, ⟨hA.hw, hprx, hpry, ?_, ?_, ?_⟩, ⟨?_, ?_⟩, ?_⟩
  · rw [← z1]; simp only [Sx, Gen.C04.point_x, ea]; ring
  · rw [← z2]; simp only [Sy, Gen.C04.point_y, ea]; ring
  · rw [← o1]; simp only [Ex, Gen.C04.point_x, eb]; ring
  · rw [← o2]; simp only [Ey, Gen.C04.point_y, eb]; ring
  · simp only [hOf]; exact div_ne_zero (mul_ne_zero d5 hπ.ne') (by norm_num)
  · simp only [hOf]; have := (abs_lt.mp d4).1; rw [lt_div_iff₀ (by norm_num)]; nlinarith
  · simp only [hOf]; have := (abs_lt.mp d4).2; rw [div_lt_iff₀ (by norm_num)]; nlinarith
  · intro hl
    rw [e2h, abs_div, abs_mul, abs_of_pos hπ, abs_of_pos (by norm_num : (0 : ℝ) < 180), le_div_iff₀ (by norm_num)]
    by_contra hcon
    have hlt : |p.delta| < 180 := by
      by_contra h2; have := not_lt.mp h2; exact hcon (by nlinarith)
    have := d3 hlt; rw [hl] at this; exact absurd this (by simp)
  · intro hl
    rw [e2h, abs_div, abs_mul, abs_of_pos hπ, abs_of_pos (by norm_num : (0 : ℝ) < 180), div_le_iff₀ (by norm_num)]
    by_contra hcon
    have hgt : 180 < |p.delta| := by
      by_contra h2; have := not_lt.mp h2; exact hcon (by nlinarith)
    have := d2 hgt; rw [hl] at this; exact absurd this (by simp)
  · rw [e2h, ← d1]
    constructor
    · intro hp'; exact div_pos (mul_pos hp' hπ) (by norm_num)
    · intro hp'
      by_contra hcon
      have : p.delta * π / 180 ≤ 0 := div_nonpos_of_nonpos_of_nonneg (mul_nonpos_of_nonpos_of_nonneg (not_lt.mp hcon) hπ.le) (by norm_num)
      linarith

end built

section built2
variable {sx sy ex ey rx0 ry0 : ℝ}

/-- **`Arc.reversed()` of a constructor-built arc**: `reversed().point(t) = point(1 − t)` -/
theorem built_reversed (hA : Admissible sx sy ex ey rx0 ry0 wx wy) (hrx : 0 < rx0) (hry : 0 < ry0) (rot t : ℝ) :
    ∀ p q, p = arcParams sx sy ex ey rx0 ry0 wx wy large sweep → q = arcParams ex ey sx sy p.rx p.ry wx wy large (!sweep) →
    Gen.C04.point_x q.theta q.delta q.rx q.ry wx wy rot q.cx q.cy π t
      = Gen.C04.point_x p.theta p.delta p.rx p.ry wx wy rot p.cx p.cy π (1 - t) ∧
    Gen.C04.point_y q.theta q.delta q.rx q.ry wx wy rot q.cx q.cy π t
      = Gen.C04.point_y p.theta p.delta p.rx p.ry wx wy rot p.cx p.cy π (1 - t) := by
  intro p q hp hq
  obtain ⟨e1, e2, e3, e4, H, hL, hS⟩ := built_centerform (large := large) (sweep := sweep) hA hrx hry p hp
  have := reversed_point (cx := p.cx) (cy := p.cy) (m := mOf p) H hL hS rot t
  rw [e1, e2, e3, e4, ← hq] at this
  have ang : mOf p - hOf p + (1 - t) * (2 * hOf p) = (p.theta + (1 - t) * p.delta) * π / 180 := by
    simp only [mOf, hOf]; ring
  rw [this.1, this.2]
  simp only [cfX, cfY, Gen.C04.point_x, Gen.C04.point_y, ang]
  constructor <;> ring

/-- **`Arc.cropped(t0, t1)` of a constructor-built arc**, `0 ≤ t0 < t1 ≤ 1`: `cropped.point(u) = point(t0 + u (t1 − t0))` -/
theorem built_cropped (hA : Admissible sx sy ex ey rx0 ry0 wx wy) (hrx : 0 < rx0) (hry : 0 < ry0)
    (t0 t1 : ℝ) (h0 : 0 ≤ t0) (h01 : t0 < t1) (h1 : t1 ≤ 1) (newLarge : Bool) (rot u : ℝ) :
    ∀ (p q : Params ℝ) (P : ℝ → ℝ × ℝ), p = arcParams sx sy ex ey rx0 ry0 wx wy large sweep →
    (∀ t, P t = (Gen.C04.point_x p.theta p.delta p.rx p.ry wx wy rot p.cx p.cy π t,
      Gen.C04.point_y p.theta p.delta p.rx p.ry wx wy rot p.cx p.cy π t)) →
    (newLarge = true ↔ 180 < |p.delta * (t1 - t0)|) →
    q = arcParams (P t0).1 (P t0).2 (P t1).1 (P t1).2 p.rx p.ry wx wy newLarge sweep →
    (Gen.C04.point_x q.theta q.delta q.rx q.ry wx wy rot q.cx q.cy π u,
      Gen.C04.point_y q.theta q.delta q.rx q.ry wx wy rot q.cx q.cy π u) = P (t0 + u * (t1 - t0)) := by
  intro p q P hp hPdef hnl hq
  have hπ := Real.pi_pos
  obtain ⟨e1, e2, e3, e4, H, hL, hS⟩ := built_centerform (large := large) (sweep := sweep) hA hrx hry p hp
  have hP : ∀ t, P t = (cfX p.cx p.cy p.rx p.ry wx wy (mOf p) (hOf p) t, cfY p.cx p.cy p.rx p.ry wx wy (mOf p) (hOf p) t) := by
    intro t
    have ang : mOf p - hOf p + t * (2 * hOf p) = (p.theta + t * p.delta) * π / 180 := by simp only [mOf, hOf]; ring
    rw [hPdef t]
    simp only [cfX, cfY, Gen.C04.point_x, Gen.C04.point_y, ang]
    ext <;> simp only <;> ring
  have hnl' : newLarge = true ↔ π < |2 * hOf p * (t1 - t0)| := by
    rw [hnl]
    have e : 2 * hOf p * (t1 - t0) = p.delta * (t1 - t0) * π / 180 := by simp only [hOf]; ring
    rw [e, abs_div, abs_mul _ π, abs_of_pos hπ, abs_of_pos (by norm_num : (0 : ℝ) < 180), lt_div_iff₀ (by norm_num)]
    constructor
    · intro hh; nlinarith
    · intro hh; nlinarith
  have := cropped_point (cx := p.cx) (cy := p.cy) (m := mOf p) H hS t0 t1 h0 h01 h1 newLarge hnl' rot u
  rw [hq, hP t0, hP t1, hP (t0 + u * (t1 - t0))]
  ext
  · exact this.1
  · exact this.2

end built2
/-! ## the constructor -/
section init
variable {sx sy ex ey rx0 ry0 : ℝ}

theorem sabs_eq_abs (x : ℝ) : SvgVerif.Model.sabs x = |x| := by
  unfold SvgVerif.Model.sabs
  split
  · rename_i h; rw [abs_of_neg h]
  · rename_i h; rw [abs_of_nonneg (not_lt.mp h)]

/-- `Arc.__init__` is `_parameterize` on the absolute radii and the `bool()` of the flags -/
theorem arcInit_eq (la sw : Int) :
    arcInit Real.sqrt acosDeg czExact sx sy ex ey rx0 ry0 wx wy la sw
      = (arcParams sx sy ex ey |rx0| |ry0| wx wy (decide (la ≠ 0)) (decide (sw ≠ 0)), decide (la ≠ 0), decide (sw ≠ 0)) := by
  simp only [arcInit, arcParams, sabs_eq_abs]

/-- for every input the constructor accepts (`start ≠ end`, both radii non-zero — of either sign —, `rot_matrix` a unit
complex) the parameters it stores satisfy everything proved for admissible inputs, with positive radii -/
theorem init_admissible (hw : wx * wx + wy * wy = 1) (hrx : rx0 ≠ 0) (hry : ry0 ≠ 0) (hne : sx ≠ ex ∨ sy ≠ ey) :
    Admissible sx sy ex ey |rx0| |ry0| wx wy ∧ 0 < |rx0| ∧ 0 < |ry0| :=
  ⟨⟨hw, abs_ne_zero.mpr hrx, abs_ne_zero.mpr hry, hne⟩, abs_pos.mpr hrx, abs_pos.mpr hry⟩

end init

end rt
end SvgVerif.Props.C04RoundTrip
