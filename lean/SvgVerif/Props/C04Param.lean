import SvgVerif.Model.ArcParam
import SvgVerif.Gen.C04
import SvgVerif.Props.C04
import Mathlib.Analysis.SpecialFunctions.Trigonometric.Inverse
import Mathlib.Analysis.SpecialFunctions.Sqrt
import Mathlib.Tactic.Ring
import Mathlib.Tactic.Linarith
import Mathlib.Tactic.FieldSimp
import Mathlib.Tactic.LinearCombination
import Mathlib.Tactic.Positivity
/-! # C04 — `Arc._parameterize` realises the F.6.5 endpoint-to-centre conversion

Theorems about the hand-written model `Model.ArcParam.parameterize` (the real method is executed against it on
exact rationals by harness/props/c04.py), over ℝ with `sqrt = Real.sqrt`,
`degrees(acos x) = arccos x · 180/π` and the exact reading of `np.isclose(·, 0)` (true iff the argument is 0; the
1e-8 band of the float code is the recorded finding F29).  Hypotheses: `rot_matrix` is a unit complex number,
radii non-zero (`__init__` makes them positive), `start ≠ end`.

* `scaled_radiusCheck_le_one`, `radii_scaled` — the radii are `(rx, ry)·max(1, √Λ)` and afterwards `Λ' ≤ 1`;
  `radii_minimal` — no smaller common factor admits an ellipse through both end points;
* `u1_unit`, `u2_unit` — with the computed centre, start and end lie on the ellipse (the transformed end points
  are unit vectors), so `np.clip` never acts;
* `point_zero`, `point_one` — the traced `Arc.point` (Gen.C04) at `t = 0`, `t = 1` IS start / end;
* `delta_sweep`, `delta_large`, `delta_exact_fit` — the angle moves in the direction selected by `sweep`, spans
  more than 180° iff `large_arc` (when the radii are not an exact fit), and `|delta| < 360`. -/
namespace SvgVerif.Props.C04Param
set_option linter.unusedVariables false
set_option linter.unusedSimpArgs false
set_option linter.unusedSectionVars false
open SvgVerif SvgVerif.Model.ArcParam Real

/-! ## algebra (any field) -/
section algebra
variable {K : Type} [Field K]

/-- for a unit `rot_matrix` the primed start point is the rotated half chord -/
theorem zp1_unit (sx sy ex ey wx wy : K) (hw : wx * wx + wy * wy = 1) :
    zp1 sx sy ex ey wx wy
      = ((wx * (sx - ex) + wy * (sy - ey)) / 2, (wx * (sy - ey) - wy * (sx - ex)) / 2) := by
  unfold zp1
  simp only [hw, div_one]
  ext <;> simp only <;> ring

/-- `tmp = rx² ry² Λ` -/
theorem tmp_eq (x1p y1p rx ry : K) (hrx : rx ≠ 0) (hry : ry ≠ 0) :
    rx * rx * (y1p * y1p) + ry * ry * (x1p * x1p) = rx * rx * (ry * ry) * radiusCheck x1p y1p rx ry := by
  unfold radiusCheck; field_simp; ring

/-- `radicand = (1 − Λ)/Λ` -/
theorem radicand_eq (x1p y1p rx ry : K) (hrx : rx ≠ 0) (hry : ry ≠ 0) (hΛ : radiusCheck x1p y1p rx ry ≠ 0) :
    radicand x1p y1p rx ry = (1 - radiusCheck x1p y1p rx ry) / radiusCheck x1p y1p rx ry := by
  unfold radicand
  simp only
  rw [tmp_eq x1p y1p rx ry hrx hry]
  have h2 : rx * rx * (ry * ry) ≠ 0 := by positivity
  field_simp

/-- scaling both radii by `s` divides `Λ` by `s²` -/
theorem radiusCheck_scale (x1p y1p rx ry s : K) (hrx : rx ≠ 0) (hry : ry ≠ 0) (hs : s ≠ 0) :
    radiusCheck x1p y1p (rx * s) (ry * s) = radiusCheck x1p y1p rx ry / (s * s) := by
  unfold radiusCheck; field_simp

/-- **The transformed end points are unit vectors**: whatever the sign `σ = ±1` chosen for the centre, if
`ρ² = radicand` then `u1 = ((x1' − c'x)/rx, (y1' − c'y)/ry)` and `u2` (from `−(x1', y1')`) have modulus 1 —
start and end lie on the ellipse with the computed centre. -/
theorem u_unit (x1p y1p rx ry rho sg : K) (hrx : rx ≠ 0) (hry : ry ≠ 0) (hsg : sg * sg = 1)
    (hΛ : radiusCheck x1p y1p rx ry ≠ 0) (hrho : rho * rho = radicand x1p y1p rx ry) :
    ((x1p - sg * rho * (rx * y1p / ry)) / rx) ^ 2 + ((y1p - sg * rho * (-(ry * x1p / rx))) / ry) ^ 2 = 1 ∧
    ((-x1p - sg * rho * (rx * y1p / ry)) / rx) ^ 2 + ((-y1p - sg * rho * (-(ry * x1p / rx))) / ry) ^ 2 = 1 := by
  rw [radicand_eq x1p y1p rx ry hrx hry hΛ] at hrho
  obtain ⟨L, hL⟩ : ∃ L, L = radiusCheck x1p y1p rx ry := ⟨_, rfl⟩
  rw [← hL] at hΛ hrho
  have hL' : x1p * x1p / (rx * rx) + y1p * y1p / (ry * ry) = L := by rw [hL]; rfl
  have hr : rho * rho * L = 1 - L := by rw [hrho]; field_simp
  have e1 : ∀ a b : K, (a - sg * rho * (rx * b / ry)) / rx = a / rx - sg * rho * (b / ry) := by
    intro a b; field_simp
  have e2 : ∀ a b : K, (b - sg * rho * (-(ry * a / rx))) / ry = b / ry + sg * rho * (a / rx) := by
    intro a b; field_simp; ring
  have hx : x1p * x1p / (rx * rx) = (x1p / rx) ^ 2 := by field_simp
  have hy : y1p * y1p / (ry * ry) = (y1p / ry) ^ 2 := by field_simp
  rw [hx, hy] at hL'
  constructor
  · rw [e1, e2]
    linear_combination (1 + rho * rho) * hL' + hr + (rho * rho * ((x1p / rx) ^ 2 + (y1p / ry) ^ 2)) * (hsg)
  · rw [e1, e2]
    have n1 : (-x1p) / rx = -(x1p / rx) := by ring
    have n2 : (-y1p) / ry = -(y1p / ry) := by ring
    rw [n1, n2]
    linear_combination (1 + rho * rho) * hL' + hr + (rho * rho * ((x1p / rx) ^ 2 + (y1p / ry) ^ 2)) * (hsg)

end algebra


/-! ## the model over ℝ -/
section real

/-- `degrees(acos(x))` -/
noncomputable def acosDeg (x : ℝ) : ℝ := arccos x * 180 / π

/-- the exact reading of `np.isclose(x, 0)` -/
noncomputable def czExact (x : ℝ) : Bool := decide (x = 0)

variable (sx sy ex ey rx0 ry0 wx wy : ℝ) (large sweep : Bool)

/-- the model at ℝ -/
noncomputable def arcParams : Params ℝ :=
  parameterize Real.sqrt acosDeg czExact sx sy ex ey rx0 ry0 wx wy large sweep

noncomputable def X1 : ℝ := (zp1 sx sy ex ey wx wy).1
noncomputable def Y1 : ℝ := (zp1 sx sy ex ey wx wy).2
/-- `Λ`, F.6.6.2 -/
noncomputable def Lam : ℝ := radiusCheck (X1 sx sy ex ey wx wy) (Y1 sx sy ex ey wx wy) rx0 ry0
/-- the common factor applied to the radii -/
noncomputable def scaleF : ℝ := if 1 < Lam sx sy ex ey rx0 ry0 wx wy then Real.sqrt (Lam sx sy ex ey rx0 ry0 wx wy) else 1
noncomputable def RX : ℝ := rx0 * scaleF sx sy ex ey rx0 ry0 wx wy
noncomputable def RY : ℝ := ry0 * scaleF sx sy ex ey rx0 ry0 wx wy
/-- `Λ` for the final radii -/
noncomputable def Lam' : ℝ :=
  radiusCheck (X1 sx sy ex ey wx wy) (Y1 sx sy ex ey wx wy) (RX sx sy ex ey rx0 ry0 wx wy) (RY sx sy ex ey rx0 ry0 wx wy)
noncomputable def Rad : ℝ :=
  radicand (X1 sx sy ex ey wx wy) (Y1 sx sy ex ey wx wy) (RX sx sy ex ey rx0 ry0 wx wy) (RY sx sy ex ey rx0 ry0 wx wy)
noncomputable def Rho : ℝ := if czExact (Rad sx sy ex ey rx0 ry0 wx wy) then 0 else Real.sqrt (Rad sx sy ex ey rx0 ry0 wx wy)
/-- the sign in front of the radical: `−1` iff `large_arc == sweep` -/
def Sg : ℝ := if large = sweep then -1 else 1
noncomputable def CPx : ℝ := Sg large sweep * Rho sx sy ex ey rx0 ry0 wx wy *
  (RX sx sy ex ey rx0 ry0 wx wy * Y1 sx sy ex ey wx wy / RY sx sy ex ey rx0 ry0 wx wy)
noncomputable def CPy : ℝ := Sg large sweep * Rho sx sy ex ey rx0 ry0 wx wy *
  (-(RY sx sy ex ey rx0 ry0 wx wy * X1 sx sy ex ey wx wy / RX sx sy ex ey rx0 ry0 wx wy))
noncomputable def U1x : ℝ := (X1 sx sy ex ey wx wy - CPx sx sy ex ey rx0 ry0 wx wy large sweep) / RX sx sy ex ey rx0 ry0 wx wy
noncomputable def U1y : ℝ := (Y1 sx sy ex ey wx wy - CPy sx sy ex ey rx0 ry0 wx wy large sweep) / RY sx sy ex ey rx0 ry0 wx wy
noncomputable def U2x : ℝ := (-X1 sx sy ex ey wx wy - CPx sx sy ex ey rx0 ry0 wx wy large sweep) / RX sx sy ex ey rx0 ry0 wx wy
noncomputable def U2y : ℝ := (-Y1 sx sy ex ey wx wy - CPy sx sy ex ey rx0 ry0 wx wy large sweep) / RY sx sy ex ey rx0 ry0 wx wy

/-- the standing hypotheses: unit `rot_matrix`, non-zero radii, distinct end points -/
structure Admissible : Prop where
  hw : wx * wx + wy * wy = 1
  hrx : rx0 ≠ 0
  hry : ry0 ≠ 0
  hne : sx ≠ ex ∨ sy ≠ ey

variable {sx sy ex ey rx0 ry0 wx wy}

theorem chord_sq (h : Admissible sx sy ex ey rx0 ry0 wx wy) :
    X1 sx sy ex ey wx wy ^ 2 + Y1 sx sy ex ey wx wy ^ 2 = ((sx - ex) ^ 2 + (sy - ey) ^ 2) / 4 := by
  unfold X1 Y1
  rw [zp1_unit sx sy ex ey wx wy h.hw]
  simp only
  have := h.hw
  linear_combination (((sx - ex) ^ 2 + (sy - ey) ^ 2) / 4) * this

theorem Lam_pos (h : Admissible sx sy ex ey rx0 ry0 wx wy) : 0 < Lam sx sy ex ey rx0 ry0 wx wy := by
  have hc := chord_sq h
  have hd : 0 < (sx - ex) ^ 2 + (sy - ey) ^ 2 := by
    rcases h.hne with h1 | h1
    · have : sx - ex ≠ 0 := sub_ne_zero.mpr h1
      positivity
    · have : sy - ey ≠ 0 := sub_ne_zero.mpr h1
      positivity
  have hxy : 0 < X1 sx sy ex ey wx wy ^ 2 + Y1 sx sy ex ey wx wy ^ 2 := by rw [hc]; positivity
  unfold Lam radiusCheck
  have hrx := h.hrx
  have hry := h.hry
  have a : 0 ≤ X1 sx sy ex ey wx wy * X1 sx sy ex ey wx wy / (rx0 * rx0) :=
    div_nonneg (mul_self_nonneg _) (mul_self_nonneg _)
  have b : 0 ≤ Y1 sx sy ex ey wx wy * Y1 sx sy ex ey wx wy / (ry0 * ry0) :=
    div_nonneg (mul_self_nonneg _) (mul_self_nonneg _)
  by_contra hcon
  push_neg at hcon
  have a0 : X1 sx sy ex ey wx wy * X1 sx sy ex ey wx wy / (rx0 * rx0) = 0 := by linarith
  have b0 : Y1 sx sy ex ey wx wy * Y1 sx sy ex ey wx wy / (ry0 * ry0) = 0 := by linarith
  have hrx2 : rx0 * rx0 ≠ 0 := mul_ne_zero hrx hrx
  have hry2 : ry0 * ry0 ≠ 0 := mul_ne_zero hry hry
  rw [div_eq_zero_iff] at a0 b0
  rcases a0 with a0 | a0
  · rcases b0 with b0 | b0
    · nlinarith
    · exact hry2 b0
  · exact hrx2 a0

theorem scaleF_pos (h : Admissible sx sy ex ey rx0 ry0 wx wy) : 0 < scaleF sx sy ex ey rx0 ry0 wx wy := by
  unfold scaleF
  split
  · exact Real.sqrt_pos.mpr (Lam_pos h)
  · exact one_pos

/-- `scaleF = max(1, √Λ)` -/
theorem scaleF_eq_max (h : Admissible sx sy ex ey rx0 ry0 wx wy) :
    scaleF sx sy ex ey rx0 ry0 wx wy = max 1 (Real.sqrt (Lam sx sy ex ey rx0 ry0 wx wy)) := by
  unfold scaleF
  split
  · rename_i h1
    have : 1 ≤ Real.sqrt (Lam sx sy ex ey rx0 ry0 wx wy) := by
      have := Real.sqrt_le_sqrt h1.le
      rwa [Real.sqrt_one] at this
    rw [max_eq_right this]
  · rename_i h1
    have : Real.sqrt (Lam sx sy ex ey rx0 ry0 wx wy) ≤ 1 := Real.sqrt_le_one.mpr (not_lt.mp h1)
    rw [max_eq_left this]

theorem RX_ne (h : Admissible sx sy ex ey rx0 ry0 wx wy) : RX sx sy ex ey rx0 ry0 wx wy ≠ 0 :=
  mul_ne_zero h.hrx (scaleF_pos h).ne'
theorem RY_ne (h : Admissible sx sy ex ey rx0 ry0 wx wy) : RY sx sy ex ey rx0 ry0 wx wy ≠ 0 :=
  mul_ne_zero h.hry (scaleF_pos h).ne'

/-- **After the radius correction an ellipse fits**: `0 < Λ' ≤ 1`, and `Λ' = 1` exactly when the radii had to be
enlarged. -/
theorem Lam'_bounds (h : Admissible sx sy ex ey rx0 ry0 wx wy) :
    0 < Lam' sx sy ex ey rx0 ry0 wx wy ∧ Lam' sx sy ex ey rx0 ry0 wx wy ≤ 1 ∧
    (1 < Lam sx sy ex ey rx0 ry0 wx wy → Lam' sx sy ex ey rx0 ry0 wx wy = 1) := by
  have hs := scaleF_pos h
  have hL := Lam_pos h
  have e : Lam' sx sy ex ey rx0 ry0 wx wy = Lam sx sy ex ey rx0 ry0 wx wy /
      (scaleF sx sy ex ey rx0 ry0 wx wy * scaleF sx sy ex ey rx0 ry0 wx wy) := by
    unfold Lam' RX RY Lam
    exact radiusCheck_scale _ _ _ _ _ h.hrx h.hry hs.ne'
  rw [e]
  refine ⟨by positivity, ?_, ?_⟩
  · unfold scaleF
    split
    · rw [Real.mul_self_sqrt hL.le, div_self hL.ne']
    · rename_i h1; simp; exact not_lt.mp h1
  · intro h1
    unfold scaleF
    rw [if_pos h1, Real.mul_self_sqrt hL.le, div_self hL.ne']

theorem Rad_nonneg (h : Admissible sx sy ex ey rx0 ry0 wx wy) : 0 ≤ Rad sx sy ex ey rx0 ry0 wx wy := by
  obtain ⟨a, b, _⟩ := Lam'_bounds h
  unfold Rad
  rw [radicand_eq _ _ _ _ (RX_ne h) (RY_ne h) (by unfold Lam' at a; exact a.ne')]
  unfold Lam' at a b
  exact div_nonneg (by linarith) a.le

theorem Rho_sq (h : Admissible sx sy ex ey rx0 ry0 wx wy) :
    Rho sx sy ex ey rx0 ry0 wx wy * Rho sx sy ex ey rx0 ry0 wx wy = Rad sx sy ex ey rx0 ry0 wx wy := by
  unfold Rho czExact
  split
  · rename_i h0; simp at h0; rw [h0]; ring
  · exact Real.mul_self_sqrt (Rad_nonneg h)

theorem Rho_nonneg : 0 ≤ Rho sx sy ex ey rx0 ry0 wx wy := by
  unfold Rho; split
  · exact le_refl _
  · exact Real.sqrt_nonneg _

theorem Sg_sq : Sg large sweep * Sg large sweep = 1 := by unfold Sg; split <;> norm_num

/-- **Start and end lie on the ellipse with the computed centre and radii**: the transformed end points `u1`, `u2`
are unit vectors. -/
theorem u1_unit (h : Admissible sx sy ex ey rx0 ry0 wx wy) :
    U1x sx sy ex ey rx0 ry0 wx wy large sweep ^ 2 + U1y sx sy ex ey rx0 ry0 wx wy large sweep ^ 2 = 1 :=
  (u_unit _ _ _ _ _ _ (RX_ne h) (RY_ne h) (Sg_sq large sweep) (Lam'_bounds h).1.ne' (Rho_sq h)).1

theorem u2_unit (h : Admissible sx sy ex ey rx0 ry0 wx wy) :
    U2x sx sy ex ey rx0 ry0 wx wy large sweep ^ 2 + U2y sx sy ex ey rx0 ry0 wx wy large sweep ^ 2 = 1 :=
  (u_unit _ _ _ _ _ _ (RX_ne h) (RY_ne h) (Sg_sq large sweep) (Lam'_bounds h).1.ne' (Rho_sq h)).2

theorem clip_of_unit (a b : ℝ) (h : a ^ 2 + b ^ 2 = 1) : clip a = a ∧ clip b = b := by
  have ha : -1 ≤ a ∧ a ≤ 1 := by constructor <;> nlinarith [sq_nonneg b, sq_nonneg (a - 1), sq_nonneg (a + 1)]
  have hb : -1 ≤ b ∧ b ≤ 1 := by constructor <;> nlinarith [sq_nonneg a, sq_nonneg (b - 1), sq_nonneg (b + 1)]
  unfold clip
  constructor
  · rw [if_neg (not_lt.mpr ha.1), if_neg (not_lt.mpr ha.2)]
  · rw [if_neg (not_lt.mpr hb.1), if_neg (not_lt.mpr hb.2)]

/-- the output of the model, field by field, with the clipping removed -/
theorem arcParams_eq (h : Admissible sx sy ex ey rx0 ry0 wx wy) :
    arcParams sx sy ex ey rx0 ry0 wx wy large sweep =
      ⟨RX sx sy ex ey rx0 ry0 wx wy, RY sx sy ex ey rx0 ry0 wx wy,
       wx * CPx sx sy ex ey rx0 ry0 wx wy large sweep - wy * CPy sx sy ex ey rx0 ry0 wx wy large sweep + (sx + ex) / 2,
       wx * CPy sx sy ex ey rx0 ry0 wx wy large sweep + wy * CPx sx sy ex ey rx0 ry0 wx wy large sweep + (sy + ey) / 2,
       thetaOf acosDeg (U1x sx sy ex ey rx0 ry0 wx wy large sweep) (U1y sx sy ex ey rx0 ry0 wx wy large sweep),
       adjust (deltaRaw acosDeg (U1x sx sy ex ey rx0 ry0 wx wy large sweep) (U1y sx sy ex ey rx0 ry0 wx wy large sweep)
         (U2x sx sy ex ey rx0 ry0 wx wy large sweep) (U2y sx sy ex ey rx0 ry0 wx wy large sweep)) large sweep⟩ := by
  have hr : scaledRadii Real.sqrt (X1 sx sy ex ey wx wy) (Y1 sx sy ex ey wx wy) rx0 ry0
      = (RX sx sy ex ey rx0 ry0 wx wy, RY sx sy ex ey rx0 ry0 wx wy) := by
    unfold scaledRadii RX RY scaleF Lam
    simp only
    split <;> simp
  have hcp : cPrime (Rho sx sy ex ey rx0 ry0 wx wy) (X1 sx sy ex ey wx wy) (Y1 sx sy ex ey wx wy)
      (RX sx sy ex ey rx0 ry0 wx wy) (RY sx sy ex ey rx0 ry0 wx wy) large sweep
      = (CPx sx sy ex ey rx0 ry0 wx wy large sweep, CPy sx sy ex ey rx0 ry0 wx wy large sweep) := by
    unfold cPrime CPx CPy Sg
    split <;> (ext <;> simp only <;> ring)
  obtain ⟨c1, c2⟩ := clip_of_unit _ _ (u1_unit (large := large) (sweep := sweep) h)
  obtain ⟨c3, c4⟩ := clip_of_unit _ _ (u2_unit (large := large) (sweep := sweep) h)
  unfold U1x at c1
  unfold U1y at c2
  unfold U2x at c3
  unfold U2y at c4
  unfold arcParams parameterize
  simp only
  have hX : (zp1 sx sy ex ey wx wy).1 = X1 sx sy ex ey wx wy := rfl
  have hY : (zp1 sx sy ex ey wx wy).2 = Y1 sx sy ex ey wx wy := rfl
  rw [hX, hY, hr]
  simp only
  have hrho : (if czExact (radicand (X1 sx sy ex ey wx wy) (Y1 sx sy ex ey wx wy) (RX sx sy ex ey rx0 ry0 wx wy)
      (RY sx sy ex ey rx0 ry0 wx wy)) = true then (0 : ℝ)
      else Real.sqrt (radicand (X1 sx sy ex ey wx wy) (Y1 sx sy ex ey wx wy) (RX sx sy ex ey rx0 ry0 wx wy)
      (RY sx sy ex ey rx0 ry0 wx wy))) = Rho sx sy ex ey rx0 ry0 wx wy := rfl
  rw [hrho, hcp]
  simp only
  rw [c1, c2, c3, c4]
  rfl

end real

/-! ## angles -/
section angles
variable {sx sy ex ey rx0 ry0 wx wy : ℝ} {large sweep : Bool}

theorem thetaOf_eq (ux uy : ℝ) : thetaOf acosDeg ux uy = C04.thetaDeg ux uy := by
  unfold thetaOf C04.thetaDeg acosDeg; rfl

/-- for unit vectors the raw `delta` case split is the `theta` case split applied to `(u1·u2, u1×u2)` -/
theorem deltaRaw_eq (u1x u1y u2x u2y : ℝ) (h1 : u1x ^ 2 + u1y ^ 2 = 1) (h2 : u2x ^ 2 + u2y ^ 2 = 1) :
    deltaRaw acosDeg u1x u1y u2x u2y = C04.thetaDeg (u1x * u2x + u1y * u2y) (u1x * u2y - u1y * u2x) ∧
    (u1x * u2x + u1y * u2y) ^ 2 + (u1x * u2y - u1y * u2x) ^ 2 = 1 := by
  have hl : (u1x * u2x + u1y * u2y) ^ 2 + (u1x * u2y - u1y * u2x) ^ 2 = 1 := by
    have : (u1x * u2x + u1y * u2y) ^ 2 + (u1x * u2y - u1y * u2x) ^ 2
        = (u1x ^ 2 + u1y ^ 2) * (u2x ^ 2 + u2y ^ 2) := by ring
    rw [this, h1, h2]; ring
  refine ⟨?_, hl⟩
  obtain ⟨c1, _⟩ := clip_of_unit _ _ hl
  have c0 : clip (0 : ℝ) = 0 := by unfold clip; norm_num
  unfold deltaRaw C04.thetaDeg acosDeg
  simp only [c1, c0, add_zero]

theorem adjust_cos_sin (d : ℝ) (large sweep : Bool) :
    cos (adjust d large sweep * π / 180) = cos (d * π / 180) ∧
    sin (adjust d large sweep * π / 180) = sin (d * π / 180) := by
  unfold adjust
  split
  · have : (d - 360) * π / 180 = d * π / 180 - 2 * π := by ring
    rw [this, cos_sub_two_pi, sin_sub_two_pi]; exact ⟨rfl, rfl⟩
  · split
    · have : (d + 360) * π / 180 = d * π / 180 + 2 * π := by ring
      rw [this, cos_add_two_pi, sin_add_two_pi]; exact ⟨rfl, rfl⟩
    · exact ⟨rfl, rfl⟩

/-- `cos θ = u1x`, `sin θ = u1y` for the stored `theta` -/
theorem theta_cos_sin (h : Admissible sx sy ex ey rx0 ry0 wx wy) :
    cos ((arcParams sx sy ex ey rx0 ry0 wx wy large sweep).theta * π / 180) = U1x sx sy ex ey rx0 ry0 wx wy large sweep ∧
    sin ((arcParams sx sy ex ey rx0 ry0 wx wy large sweep).theta * π / 180) = U1y sx sy ex ey rx0 ry0 wx wy large sweep := by
  rw [arcParams_eq large sweep h]
  simp only
  rw [thetaOf_eq]
  exact C04.theta_correct _ _ (u1_unit (large := large) (sweep := sweep) h)

/-- `cos(θ + δ) = u2x`, `sin(θ + δ) = u2y` for the stored `theta`, `delta` -/
theorem theta_delta_cos_sin (h : Admissible sx sy ex ey rx0 ry0 wx wy) :
    cos (((arcParams sx sy ex ey rx0 ry0 wx wy large sweep).theta + (arcParams sx sy ex ey rx0 ry0 wx wy large sweep).delta) * π / 180)
      = U2x sx sy ex ey rx0 ry0 wx wy large sweep ∧
    sin (((arcParams sx sy ex ey rx0 ry0 wx wy large sweep).theta + (arcParams sx sy ex ey rx0 ry0 wx wy large sweep).delta) * π / 180)
      = U2y sx sy ex ey rx0 ry0 wx wy large sweep := by
  obtain ⟨ct, st⟩ := theta_cos_sin (large := large) (sweep := sweep) h
  have h1 := u1_unit (large := large) (sweep := sweep) h
  have h2 := u2_unit (large := large) (sweep := sweep) h
  obtain ⟨hd, hl⟩ := deltaRaw_eq _ _ _ _ h1 h2
  obtain ⟨ca, sa⟩ := adjust_cos_sin (deltaRaw acosDeg (U1x sx sy ex ey rx0 ry0 wx wy large sweep)
    (U1y sx sy ex ey rx0 ry0 wx wy large sweep) (U2x sx sy ex ey rx0 ry0 wx wy large sweep)
    (U2y sx sy ex ey rx0 ry0 wx wy large sweep)) large sweep
  obtain ⟨cd, sd⟩ := C04.theta_correct _ _ hl
  rw [← hd] at cd sd
  rw [← ca] at cd
  rw [← sa] at sd
  have hdel : (arcParams sx sy ex ey rx0 ry0 wx wy large sweep).delta
      = adjust (deltaRaw acosDeg (U1x sx sy ex ey rx0 ry0 wx wy large sweep) (U1y sx sy ex ey rx0 ry0 wx wy large sweep)
          (U2x sx sy ex ey rx0 ry0 wx wy large sweep) (U2y sx sy ex ey rx0 ry0 wx wy large sweep)) large sweep := by
    rw [arcParams_eq large sweep h]
  rw [← hdel] at cd sd
  have e : ((arcParams sx sy ex ey rx0 ry0 wx wy large sweep).theta + (arcParams sx sy ex ey rx0 ry0 wx wy large sweep).delta) * π / 180
      = (arcParams sx sy ex ey rx0 ry0 wx wy large sweep).theta * π / 180
        + (arcParams sx sy ex ey rx0 ry0 wx wy large sweep).delta * π / 180 := by ring
  rw [e, cos_add, sin_add, ct, st, cd, sd]
  constructor
  · linear_combination (U2x sx sy ex ey rx0 ry0 wx wy large sweep) * h1
  · linear_combination (U2y sx sy ex ey rx0 ry0 wx wy large sweep) * h1

end angles

/-! ## end points -/
section endpoints
variable {sx sy ex ey rx0 ry0 wx wy : ℝ} {large sweep : Bool}

/-- **`point(0) = start`**: the traced `Arc.point` (Gen.C04) evaluated with the parameters computed by
`_parameterize` returns the start point exactly. -/
theorem point_zero (h : Admissible sx sy ex ey rx0 ry0 wx wy) (rot : ℝ) :
    let p := arcParams sx sy ex ey rx0 ry0 wx wy large sweep
    Gen.C04.point_x p.theta p.delta p.rx p.ry wx wy rot p.cx p.cy π 0 = sx ∧
    Gen.C04.point_y p.theta p.delta p.rx p.ry wx wy rot p.cx p.cy π 0 = sy := by
  intro p
  obtain ⟨ct, st⟩ := theta_cos_sin (large := large) (sweep := sweep) h
  have hp : p = arcParams sx sy ex ey rx0 ry0 wx wy large sweep := rfl
  have e0 : (p.theta + 0 * p.delta) * π / 180 = p.theta * π / 180 := by ring
  simp only [Gen.C04.point_x, Gen.C04.point_y, e0]
  rw [hp, ct, st, arcParams_eq large sweep h]
  simp only
  have hX := zp1_unit sx sy ex ey wx wy h.hw
  have hx1 : X1 sx sy ex ey wx wy = (wx * (sx - ex) + wy * (sy - ey)) / 2 := by unfold X1; rw [hX]
  have hy1 : Y1 sx sy ex ey wx wy = (wx * (sy - ey) - wy * (sx - ex)) / 2 := by unfold Y1; rw [hX]
  have hrx := RX_ne h
  have hry := RY_ne h
  have a1 : RX sx sy ex ey rx0 ry0 wx wy * U1x sx sy ex ey rx0 ry0 wx wy large sweep
      = X1 sx sy ex ey wx wy - CPx sx sy ex ey rx0 ry0 wx wy large sweep := by unfold U1x; field_simp
  have a2 : RY sx sy ex ey rx0 ry0 wx wy * U1y sx sy ex ey rx0 ry0 wx wy large sweep
      = Y1 sx sy ex ey wx wy - CPy sx sy ex ey rx0 ry0 wx wy large sweep := by unfold U1y; field_simp
  have hw := h.hw
  constructor
  · linear_combination wx * a1 - wy * a2 + wx * hx1 - wy * hy1 + ((sx - ex) / 2) * hw
  · linear_combination wy * a1 + wx * a2 + wy * hx1 + wx * hy1 + ((sy - ey) / 2) * hw

/-- **`point(1) = end`**. -/
theorem point_one (h : Admissible sx sy ex ey rx0 ry0 wx wy) (rot : ℝ) :
    let p := arcParams sx sy ex ey rx0 ry0 wx wy large sweep
    Gen.C04.point_x p.theta p.delta p.rx p.ry wx wy rot p.cx p.cy π 1 = ex ∧
    Gen.C04.point_y p.theta p.delta p.rx p.ry wx wy rot p.cx p.cy π 1 = ey := by
  intro p
  obtain ⟨ct, st⟩ := theta_delta_cos_sin (large := large) (sweep := sweep) h
  have hp : p = arcParams sx sy ex ey rx0 ry0 wx wy large sweep := rfl
  have e1 : (p.theta + 1 * p.delta) * π / 180 = (p.theta + p.delta) * π / 180 := by ring
  simp only [Gen.C04.point_x, Gen.C04.point_y, e1]
  rw [hp, ct, st, arcParams_eq large sweep h]
  simp only
  have hX := zp1_unit sx sy ex ey wx wy h.hw
  have hx1 : X1 sx sy ex ey wx wy = (wx * (sx - ex) + wy * (sy - ey)) / 2 := by unfold X1; rw [hX]
  have hy1 : Y1 sx sy ex ey wx wy = (wx * (sy - ey) - wy * (sx - ex)) / 2 := by unfold Y1; rw [hX]
  have hrx := RX_ne h
  have hry := RY_ne h
  have a1 : RX sx sy ex ey rx0 ry0 wx wy * U2x sx sy ex ey rx0 ry0 wx wy large sweep
      = -X1 sx sy ex ey wx wy - CPx sx sy ex ey rx0 ry0 wx wy large sweep := by unfold U2x; field_simp
  have a2 : RY sx sy ex ey rx0 ry0 wx wy * U2y sx sy ex ey rx0 ry0 wx wy large sweep
      = -Y1 sx sy ex ey wx wy - CPy sx sy ex ey rx0 ry0 wx wy large sweep := by unfold U2y; field_simp
  have hw := h.hw
  constructor
  · linear_combination wx * a1 - wy * a2 - wx * hx1 + wy * hy1 - ((sx - ex) / 2) * hw
  · linear_combination wy * a1 + wx * a2 - wy * hx1 - wx * hy1 - ((sy - ey) / 2) * hw

end endpoints

/-! ## direction and size of the sweep -/
section sweep
variable {sx sy ex ey rx0 ry0 wx wy : ℝ} {large sweep : Bool}

theorem Lam'_def :
    Lam' sx sy ex ey rx0 ry0 wx wy
      = X1 sx sy ex ey wx wy * X1 sx sy ex ey wx wy / (RX sx sy ex ey rx0 ry0 wx wy * RX sx sy ex ey rx0 ry0 wx wy)
        + Y1 sx sy ex ey wx wy * Y1 sx sy ex ey wx wy / (RY sx sy ex ey rx0 ry0 wx wy * RY sx sy ex ey rx0 ry0 wx wy) := rfl

/-- `u1 × u2 = 2 σ ρ Λ'` : the sign of the determinant is the sign chosen for the centre -/
theorem det_eq (h : Admissible sx sy ex ey rx0 ry0 wx wy) :
    U1x sx sy ex ey rx0 ry0 wx wy large sweep * U2y sx sy ex ey rx0 ry0 wx wy large sweep
      - U1y sx sy ex ey rx0 ry0 wx wy large sweep * U2x sx sy ex ey rx0 ry0 wx wy large sweep
      = 2 * Sg large sweep * Rho sx sy ex ey rx0 ry0 wx wy * Lam' sx sy ex ey rx0 ry0 wx wy := by
  have hrx := RX_ne h
  have hry := RY_ne h
  rw [Lam'_def]
  unfold U1x U1y U2x U2y CPx CPy
  field_simp
  ring

/-- `u1 · u2 = 1 − 2Λ'` -/
theorem dot_eq (h : Admissible sx sy ex ey rx0 ry0 wx wy) :
    U1x sx sy ex ey rx0 ry0 wx wy large sweep * U2x sx sy ex ey rx0 ry0 wx wy large sweep
      + U1y sx sy ex ey rx0 ry0 wx wy large sweep * U2y sx sy ex ey rx0 ry0 wx wy large sweep
      = 1 - 2 * Lam' sx sy ex ey rx0 ry0 wx wy := by
  have hrx := RX_ne h
  have hry := RY_ne h
  have hL := (Lam'_bounds h).1
  have hr : Rho sx sy ex ey rx0 ry0 wx wy * Rho sx sy ex ey rx0 ry0 wx wy * Lam' sx sy ex ey rx0 ry0 wx wy
      = 1 - Lam' sx sy ex ey rx0 ry0 wx wy := by
    rw [Rho_sq h]; unfold Rad
    rw [radicand_eq _ _ _ _ hrx hry (by unfold Lam' at hL; exact hL.ne')]
    have hL' : radiusCheck (X1 sx sy ex ey wx wy) (Y1 sx sy ex ey wx wy) (RX sx sy ex ey rx0 ry0 wx wy)
        (RY sx sy ex ey rx0 ry0 wx wy) ≠ 0 := by unfold Lam' at hL; exact hL.ne'
    unfold Lam'
    rw [div_mul_cancel₀ _ hL']
  have hs := Sg_sq large sweep
  have e : U1x sx sy ex ey rx0 ry0 wx wy large sweep * U2x sx sy ex ey rx0 ry0 wx wy large sweep
      + U1y sx sy ex ey rx0 ry0 wx wy large sweep * U2y sx sy ex ey rx0 ry0 wx wy large sweep
      = Lam' sx sy ex ey rx0 ry0 wx wy * (Sg large sweep * Sg large sweep *
          (Rho sx sy ex ey rx0 ry0 wx wy * Rho sx sy ex ey rx0 ry0 wx wy) - 1) := by
    rw [Lam'_def]
    unfold U1x U1y U2x U2y CPx CPy
    field_simp
    ring
  rw [e]
  linear_combination hr + (Lam' sx sy ex ey rx0 ry0 wx wy * (Rho sx sy ex ey rx0 ry0 wx wy * Rho sx sy ex ey rx0 ry0 wx wy)) * hs

theorem delta_eq (h : Admissible sx sy ex ey rx0 ry0 wx wy) :
    (arcParams sx sy ex ey rx0 ry0 wx wy large sweep).delta
      = adjust (C04.thetaDeg (1 - 2 * Lam' sx sy ex ey rx0 ry0 wx wy)
          (2 * Sg large sweep * Rho sx sy ex ey rx0 ry0 wx wy * Lam' sx sy ex ey rx0 ry0 wx wy)) large sweep := by
  rw [arcParams_eq large sweep h]
  simp only
  rw [(deltaRaw_eq _ _ _ _ (u1_unit (large := large) (sweep := sweep) h) (u2_unit (large := large) (sweep := sweep) h)).1,
    det_eq h, dot_eq h]

/-- **Exactly fitting (or enlarged) radii**: the centre is the chord midpoint, both candidate arcs are half
ellipses, and `delta = ±180` with the sign selected by `sweep`. -/
theorem delta_exact_fit (h : Admissible sx sy ex ey rx0 ry0 wx wy) (h0 : Rho sx sy ex ey rx0 ry0 wx wy = 0) :
    (arcParams sx sy ex ey rx0 ry0 wx wy large sweep).delta = if sweep then 180 else -180 := by
  have hL : Lam' sx sy ex ey rx0 ry0 wx wy = 1 := by
    have hr := Rho_sq h
    rw [h0] at hr
    have hb := Lam'_bounds h
    have hrx := RX_ne h
    have hry := RY_ne h
    unfold Rad at hr
    rw [radicand_eq _ _ _ _ hrx hry (by have := hb.1; unfold Lam' at this; exact this.ne')] at hr
    have : (1 - Lam' sx sy ex ey rx0 ry0 wx wy) / Lam' sx sy ex ey rx0 ry0 wx wy = 0 := by
      unfold Lam'; linarith
    rcases div_eq_zero_iff.mp this with h1 | h1
    · linarith
    · exact absurd h1 hb.1.ne'
  rw [delta_eq h, h0, hL]
  have : C04.thetaDeg (1 - 2 * 1) (2 * Sg large sweep * 0 * 1) = 180 := by
    unfold C04.thetaDeg; norm_num
  rw [this]
  unfold adjust
  cases sweep <;> cases large <;> norm_num

/-- **Direction and size of the sweep** when the radii are not an exact fit (`ρ > 0`): `delta > 0` iff `sweep`,
`|delta| > 180` iff `large_arc`, and `|delta| < 360` — the four cases of F.6.5.6.  (This also shows that the code's
second adjustment, which tests `large_arc` where the specification tests `sweep`, is equivalent to it.) -/
theorem delta_sweep_large (h : Admissible sx sy ex ey rx0 ry0 wx wy) (hpos : 0 < Rho sx sy ex ey rx0 ry0 wx wy) :
    let d := (arcParams sx sy ex ey rx0 ry0 wx wy large sweep).delta
    (0 < d ↔ sweep = true) ∧ (180 < |d| ↔ large = true) ∧ |d| < 360 ∧ d ≠ 0 := by
  intro d
  have hd : d = _ := delta_eq (large := large) (sweep := sweep) h
  obtain ⟨hL0, hL1, _⟩ := Lam'_bounds h
  -- ρ > 0 forces Λ' < 1
  have hLlt : Lam' sx sy ex ey rx0 ry0 wx wy < 1 := by
    by_contra hcon
    have hLe : Lam' sx sy ex ey rx0 ry0 wx wy = 1 := le_antisymm hL1 (not_lt.mp hcon)
    have hr := Rho_sq h
    unfold Rad at hr
    rw [radicand_eq _ _ _ _ (RX_ne h) (RY_ne h) (by unfold Lam' at hL0; exact hL0.ne')] at hr
    have : Rho sx sy ex ey rx0 ry0 wx wy * Rho sx sy ex ey rx0 ry0 wx wy = 0 := by
      rw [hr]; unfold Lam' at hLe; rw [hLe]; norm_num
    have := mul_self_eq_zero.mp this
    linarith
  set L := Lam' sx sy ex ey rx0 ry0 wx wy with hLdef
  set ρ := Rho sx sy ex ey rx0 ry0 wx wy with hρdef
  have hdot1 : 1 - 2 * L < 1 := by linarith
  have hdot2 : -1 < 1 - 2 * L := by linarith
  have hA0 : 0 < arccos (1 - 2 * L) * 180 / π := by
    have := arccos_pos.mpr hdot1
    positivity
  have hA1 : arccos (1 - 2 * L) * 180 / π < 180 := by
    have := arccos_lt_pi.mpr hdot2
    rw [div_lt_iff₀ pi_pos]; nlinarith [pi_pos]
  have hprod : 0 < 2 * ρ * L := by positivity
  have tpos : ∀ a b : ℝ, 0 < b → C04.thetaDeg a b = arccos a * 180 / π := by
    intro a b hb; unfold C04.thetaDeg; rw [if_pos hb]
  have tneg : ∀ a b : ℝ, b < 0 → C04.thetaDeg a b = -(arccos a * 180 / π) := by
    intro a b hb; unfold C04.thetaDeg; rw [if_neg (not_lt.mpr hb.le), if_pos hb]
  set A := arccos (1 - 2 * L) * 180 / π with hAdef
  rw [hd]
  cases large <;> cases sweep
  · -- large = false, sweep = false : σ = −1, raw = −A, unchanged
    have hS : Sg false false = -1 := by simp [Sg]
    have hdet : 2 * (-1 : ℝ) * ρ * L < 0 := by nlinarith
    rw [hS, tneg _ _ hdet]
    have ha : adjust (-A) false false = -A := by
      unfold adjust
      have : ¬ (0 ≤ -A) := by linarith
      simp [this]
    rw [ha]
    refine ⟨⟨fun hh => by linarith, fun hh => by simp at hh⟩, ⟨fun hh => ?_, fun hh => by simp at hh⟩, ?_, by linarith⟩
    · rw [abs_neg, abs_of_pos hA0] at hh; linarith
    · rw [abs_neg, abs_of_pos hA0]; linarith
  · -- large = false, sweep = true : σ = +1, raw = A, unchanged
    have hS : Sg false true = 1 := by simp [Sg]
    have hdet : 0 < 2 * (1 : ℝ) * ρ * L := by nlinarith
    rw [hS, tpos _ _ hdet]
    have ha : adjust A false true = A := by unfold adjust; simp
    rw [ha]
    refine ⟨⟨fun _ => rfl, fun _ => hA0⟩, ⟨fun hh => ?_, fun hh => by simp at hh⟩, ?_, by linarith⟩
    · rw [abs_of_pos hA0] at hh; linarith
    · rw [abs_of_pos hA0]; linarith
  · -- large = true, sweep = false : σ = +1, raw = A, minus 360
    have hS : Sg true false = 1 := by simp [Sg]
    have hdet : 0 < 2 * (1 : ℝ) * ρ * L := by nlinarith
    rw [hS, tpos _ _ hdet]
    have ha : adjust A true false = A - 360 := by unfold adjust; simp [hA0.le]
    rw [ha]
    have hneg : A - 360 < 0 := by linarith
    refine ⟨⟨fun hh => by linarith, fun hh => by simp at hh⟩, ⟨fun _ => rfl, fun _ => ?_⟩, ?_, by linarith⟩
    · rw [abs_of_neg hneg]; linarith
    · rw [abs_of_neg hneg]; linarith
  · -- large = true, sweep = true : σ = −1, raw = −A, plus 360
    have hS : Sg true true = -1 := by simp [Sg]
    have hdet : 2 * (-1 : ℝ) * ρ * L < 0 := by nlinarith
    rw [hS, tneg _ _ hdet]
    have ha : adjust (-A) true true = -A + 360 := by
      unfold adjust
      have : -A ≤ 0 := by linarith
      simp [this]
    rw [ha]
    have hp : 0 < -A + 360 := by linarith
    refine ⟨⟨fun _ => rfl, fun _ => hp⟩, ⟨fun _ => rfl, fun _ => ?_⟩, ?_, by linarith⟩
    · rw [abs_of_pos hp]; linarith
    · rw [abs_of_pos hp]; linarith

end sweep

/-! ## the radii -/
section radii
variable {sx sy ex ey rx0 ry0 wx wy : ℝ} {large sweep : Bool}

/-- **The stored radii are `(rx, ry)·max(1, √Λ)`** — unchanged when an ellipse fits (`Λ ≤ 1`). -/
theorem radii_scaled (h : Admissible sx sy ex ey rx0 ry0 wx wy) :
    (arcParams sx sy ex ey rx0 ry0 wx wy large sweep).rx = rx0 * max 1 (Real.sqrt (Lam sx sy ex ey rx0 ry0 wx wy)) ∧
    (arcParams sx sy ex ey rx0 ry0 wx wy large sweep).ry = ry0 * max 1 (Real.sqrt (Lam sx sy ex ey rx0 ry0 wx wy)) := by
  rw [arcParams_eq large sweep h]
  simp only
  unfold RX RY
  rw [scaleF_eq_max h]
  exact ⟨rfl, rfl⟩

/-- **Minimality**: if an ellipse with radii `λ·(rx, ry)` (any `λ ≠ 0`) and the given rotation passes through both
end points — i.e. some centre `c'` in the primed frame puts `±(x1', y1')` on it — then `λ² ≥ Λ`.  Together with
`Lam'_bounds` (the factor `max(1, √Λ)` does admit one) the enlargement is by exactly the minimal factor. -/
theorem radii_minimal (x1p y1p rx ry lam cx cy : ℝ) (hrx : rx ≠ 0) (hry : ry ≠ 0) (hl : lam ≠ 0)
    (h1 : ((x1p - cx) / (lam * rx)) ^ 2 + ((y1p - cy) / (lam * ry)) ^ 2 = 1)
    (h2 : ((-x1p - cx) / (lam * rx)) ^ 2 + ((-y1p - cy) / (lam * ry)) ^ 2 = 1) :
    radiusCheck x1p y1p rx ry ≤ lam ^ 2 := by
  have key : radiusCheck x1p y1p rx ry / lam ^ 2 + ((cx / (lam * rx)) ^ 2 + (cy / (lam * ry)) ^ 2) = 1 := by
    unfold radiusCheck
    have e1 : ((x1p - cx) / (lam * rx)) ^ 2 + ((y1p - cy) / (lam * ry)) ^ 2
        + (((-x1p - cx) / (lam * rx)) ^ 2 + ((-y1p - cy) / (lam * ry)) ^ 2)
        = 2 * ((x1p * x1p / (rx * rx) + y1p * y1p / (ry * ry)) / lam ^ 2 + ((cx / (lam * rx)) ^ 2 + (cy / (lam * ry)) ^ 2)) := by
      field_simp; ring
    linarith
  have hnn : 0 ≤ (cx / (lam * rx)) ^ 2 + (cy / (lam * ry)) ^ 2 := by positivity
  have hl2 : 0 < lam ^ 2 := by positivity
  have : radiusCheck x1p y1p rx ry / lam ^ 2 ≤ 1 := by linarith
  rwa [div_le_one hl2] at this

end radii

/-- non-vacuity: an admissible configuration (quarter circle of radius 1 from (1,0) to (0,1)) -/
example : Admissible (1 : ℝ) 0 0 1 1 1 1 0 := ⟨by norm_num, by norm_num, by norm_num, Or.inl (by norm_num)⟩

end SvgVerif.Props.C04Param
