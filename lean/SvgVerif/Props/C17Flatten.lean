import SvgVerif.Model.Flatten

/-! C17: the explicit-stack traversal `flattenedPaths` returns exactly the shapes of the recursive
specification `specFlatten` (as a multiset), each with the product of its ancestors' transforms. -/
namespace SvgVerif.Props.C17Flatten
open SvgVerif.Model.Flatten
variable {M : Type}

mutual
  /-- every shape's converter kind is one of the `nKinds` keys -/
  def WellKinded : Grp M → Prop
    | .mk _ _ shapes kids => (∀ s ∈ shapes, s.kind < nKinds) ∧ WellKindedList kids
  def WellKindedList : List (Grp M) → Prop
    | [] => True
    | g :: gs => WellKinded g ∧ WellKindedList gs
end

theorem wellKindedList_iff (l : List (Grp M)) : WellKindedList l ↔ ∀ g ∈ l, WellKinded g := by
  induction l with
  | nil => simp [WellKindedList]
  | cons g gs ih => simp [WellKindedList, ih]

theorem WellKinded.shapes {g : Grp M} (h : WellKinded g) : ∀ s ∈ g.shapes, s.kind < nKinds := by
  cases g; simp only [WellKinded] at h; exact h.1

theorem WellKinded.kids {g : Grp M} (h : WellKinded g) : ∀ k ∈ g.kids, WellKinded k := by
  cases g; simp only [WellKinded] at h; exact (wellKindedList_iff _).1 h.2

theorem size_eq (g : Grp M) : size g = 1 + sizeList g.kids := by
  cases g; simp only [size, Grp.kids]

theorem sizeList_eq (l : List (Grp M)) : sizeList l = (l.map size).sum := by
  induction l with
  | nil => simp [sizeList]
  | cons g gs ih => simp [sizeList, ih]

/-! ### 1. grouping by key is a permutation -/

theorem filter_true {α : Type} (l : List α) : l.filter (fun _ => true) = l :=
  List.filter_eq_self.2 (fun _ _ => rfl)

theorem filter_lt_succ_perm (p : Shape M → Bool) (l : List (Shape M)) (n : Nat) :
    (l.filter (fun s => decide (s.kind < n + 1) && p s)).Perm
      (l.filter (fun s => decide (s.kind < n) && p s) ++ l.filter (fun s => s.kind == n && p s)) := by
  induction l with
  | nil => simp
  | cons s l ih =>
    cases hp : p s
    · simpa [List.filter_cons, hp] using ih
    · rcases Nat.lt_trichotomy s.kind n with h | h | h
      · have h1 : s.kind < n + 1 := by omega
        have h2 : ¬ s.kind = n := by omega
        simpa [List.filter_cons, h, h1, h2, hp] using ih
      · have h1 : s.kind < n + 1 := by omega
        have h2 : ¬ s.kind < n := by omega
        have e1 : (decide (s.kind < n + 1) && p s) = true := by simp [h1, hp]
        have e2 : ¬ (decide (s.kind < n) && p s) = true := by simp [h2]
        have e3 : (s.kind == n && p s) = true := by simp [h, hp]
        rw [List.filter_cons_of_pos (p := fun s => decide (s.kind < n + 1) && p s) e1,
          List.filter_cons_of_neg (p := fun s => decide (s.kind < n) && p s) e2,
          List.filter_cons_of_pos (p := fun s => s.kind == n && p s) e3]
        exact (ih.cons s).trans List.perm_middle.symm
      · have h1 : ¬ s.kind < n + 1 := by omega
        have h2 : ¬ s.kind < n := by omega
        have h3 : ¬ s.kind = n := by omega
        simpa [List.filter_cons, h1, h2, h3, hp] using ih

theorem range_flatMap_filter_perm (p : Shape M → Bool) (l : List (Shape M)) (n : Nat) :
    ((List.range n).flatMap (fun k => l.filter (fun s => s.kind == k && p s))).Perm
      (l.filter (fun s => decide (s.kind < n) && p s)) := by
  induction n with
  | zero => simp
  | succ n ih =>
    rw [List.range_succ, List.flatMap_append]
    simp only [List.flatMap_cons, List.flatMap_nil, List.append_nil]
    exact (ih.append_right _).trans (filter_lt_succ_perm p l n).symm

/-- general form: the harvest is a permutation of the filtered shapes -/
theorem harvest_perm_filter (p : Shape M → Bool) (shapes : List (Shape M))
    (h : ∀ s ∈ shapes, s.kind < nKinds) : (harvest p shapes).Perm (shapes.filter p) := by
  unfold harvest
  refine (range_flatMap_filter_perm p shapes nKinds).trans ?_
  have : shapes.filter (fun s => decide (s.kind < nKinds) && p s) = shapes.filter p := by
    apply List.filter_congr
    intro s hs
    simp [h s hs]
  rw [this]

theorem harvest_perm (shapes : List (Shape M)) (h : ∀ s ∈ shapes, s.kind < nKinds) :
    (harvest (fun _ => true) shapes).Perm shapes := by
  have := harvest_perm_filter (fun _ => true) shapes h
  rwa [filter_true] at this

/-! ### 2. the stack loop -/

/-- contribution of one stack element: `p.2` already includes the group's own transform -/
def contrib (mul : M → M → M) (p : Grp M × M) : List (Nat × M) :=
  p.1.shapes.map (fun s => (s.id, mul p.2 s.tf)) ++ specFlattenList mul p.2 p.1.kids

theorem specFlatten_eq (mul : M → M → M) (acc : M) (g : Grp M) :
    specFlatten mul acc g = contrib mul (g, mul acc g.tf) := by
  cases g; simp only [specFlatten, contrib, Grp.shapes, Grp.kids, Grp.tf]

theorem children_flatMap (mul : M → M → M) (tf : M) (kids : List (Grp M)) :
    (kids.map (fun k => (k, mul tf k.tf))).flatMap (contrib mul) = specFlattenList mul tf kids := by
  induction kids with
  | nil => simp [specFlattenList]
  | cons k ks ih =>
    simp only [List.map_cons, List.flatMap_cons, specFlattenList, ih, specFlatten_eq]

mutual
  /-- every shape below `g` has a known kind and passes `pf`; every group strictly below passes `gf` -/
  def Pass (gf : Grp M → Bool) (pf : Shape M → Bool) : Grp M → Prop
    | .mk _ _ shapes kids => (∀ s ∈ shapes, s.kind < nKinds ∧ pf s = true) ∧ PassList gf pf kids
  def PassList (gf : Grp M → Bool) (pf : Shape M → Bool) : List (Grp M) → Prop
    | [] => True
    | g :: gs => (gf g = true ∧ Pass gf pf g) ∧ PassList gf pf gs
end

theorem passList_iff (gf : Grp M → Bool) (pf : Shape M → Bool) (l : List (Grp M)) :
    PassList gf pf l ↔ ∀ g ∈ l, gf g = true ∧ Pass gf pf g := by
  induction l with
  | nil => simp [PassList]
  | cons g gs ih => simp [PassList, ih]

theorem Pass.shapes {gf : Grp M → Bool} {pf : Shape M → Bool} {g : Grp M} (h : Pass gf pf g) :
    ∀ s ∈ g.shapes, s.kind < nKinds ∧ pf s = true := by
  cases g; simp only [Pass] at h; exact h.1

theorem Pass.kids {gf : Grp M → Bool} {pf : Shape M → Bool} {g : Grp M} (h : Pass gf pf g) :
    ∀ k ∈ g.kids, gf k = true ∧ Pass gf pf k := by
  cases g; simp only [Pass] at h; exact (passList_iff _ _ _).1 h.2

mutual
  theorem wellKinded_pass : (g : Grp M) → WellKinded g → Pass (fun _ => true) (fun _ => true) g
    | .mk _ _ shapes kids, h => by
      simp only [WellKinded] at h
      simp only [Pass]
      exact ⟨fun s hs => ⟨h.1 s hs, trivial⟩, wellKindedList_pass kids h.2⟩
  theorem wellKindedList_pass :
      (gs : List (Grp M)) → WellKindedList gs → PassList (fun _ => true) (fun _ => true) gs
    | [], _ => by simp only [PassList]
    | g :: gs, h => by
      simp only [WellKindedList] at h
      simp only [PassList]
      exact ⟨⟨trivial, wellKinded_pass g h.1⟩, wellKindedList_pass gs h.2⟩
end

/-- the loop invariant, for arbitrary filters that accept everything below the stacked groups -/
theorem stackLoop_pass (mul : M → M → M) (gf : Grp M → Bool) (pf : Shape M → Bool) (fuel : Nat)
    (st : List (Grp M × M)) (out : List (Nat × M))
    (hwk : ∀ p ∈ st, Pass gf pf p.1) (hfuel : (st.map (fun p => size p.1)).sum ≤ fuel) :
    ∃ res, stackLoop mul gf pf fuel st out = some res ∧
      res.Perm (out ++ st.flatMap (contrib mul)) := by
  induction fuel generalizing st out with
  | zero =>
    cases st with
    | nil => exact ⟨out, by simp [stackLoop], by simp⟩
    | cons p ps =>
      exfalso
      have := size_eq p.1
      simp only [List.map_cons, List.sum_cons] at hfuel
      omega
  | succ fuel ih =>
    cases st with
    | nil => exact ⟨out, by simp [stackLoop], by simp⟩
    | cons p ps =>
      obtain ⟨rest, ⟨g, tf⟩, hst⟩ : ∃ rest x, p :: ps = rest ++ [x] := by
        rcases List.eq_nil_or_concat (p :: ps) with h | ⟨l', b, h⟩
        · cases h
        · exact ⟨l', b, by simpa using h⟩
      have h1 : (p :: ps).getLast? = some (g, tf) := by rw [hst]; exact List.getLast?_concat
      have h2 : (p :: ps).dropLast = rest := by rw [hst]; exact List.dropLast_concat
      rw [stackLoop, h1, h2]
      rw [hst] at hwk hfuel
      have hg : Pass gf pf g := hwk (g, tf) (by simp)
      have hkids : g.kids.filter gf = g.kids :=
        List.filter_eq_self.2 (fun k hk => (hg.kids k hk).1)
      simp only [hkids]
      have hfuel' : ((rest ++ g.kids.map (fun k => (k, mul tf k.tf))).map (fun p => size p.1)).sum
          ≤ fuel := by
        have := size_eq g
        have h3 := sizeList_eq g.kids
        simp only [List.map_append, List.sum_append_nat, List.map_cons, List.map_nil, List.sum_cons,
          List.sum_nil, List.map_map] at hfuel ⊢
        have h4 : (List.map ((fun p : Grp M × M => size p.1) ∘ fun k => (k, mul tf k.tf)) g.kids)
            = g.kids.map size := rfl
        rw [h4]
        omega
      have hwk' : ∀ p ∈ rest ++ g.kids.map (fun k => (k, mul tf k.tf)), Pass gf pf p.1 := by
        intro q hq
        rcases List.mem_append.1 hq with hq | hq
        · exact hwk q (by simp [hq])
        · obtain ⟨k, hk, rfl⟩ := List.mem_map.1 hq
          exact (hg.kids k hk).2
      obtain ⟨res, hres, hperm⟩ := ih (rest ++ g.kids.map (fun k => (k, mul tf k.tf)))
        (out ++ (harvest pf g.shapes).map (fun s => (s.id, mul tf s.tf))) hwk' hfuel'
      refine ⟨res, hres, hperm.trans ?_⟩
      rw [List.flatMap_append, children_flatMap, hst, List.flatMap_append]
      simp only [List.flatMap_cons, List.flatMap_nil, List.append_nil, List.append_assoc]
      apply List.Perm.append_left
      have hh0 := harvest_perm_filter pf g.shapes (fun s hs => (hg.shapes s hs).1)
      rw [List.filter_eq_self.2 (fun s hs => (hg.shapes s hs).2)] at hh0
      have hh := hh0.map (fun s => (s.id, mul tf s.tf))
      simp only [contrib]
      rw [← List.append_assoc, ← List.append_assoc]
      apply List.Perm.append_right
      exact (hh.append_right _).trans List.perm_append_comm

theorem stackLoop_spec (mul : M → M → M) (fuel : Nat) (st : List (Grp M × M)) (out : List (Nat × M))
    (hwk : ∀ p ∈ st, WellKinded p.1) (hfuel : (st.map (fun p => size p.1)).sum ≤ fuel) :
    ∃ res, stackLoop mul (fun _ => true) (fun _ => true) fuel st out = some res ∧
      res.Perm (out ++ st.flatMap (fun p =>
        p.1.shapes.map (fun s => (s.id, mul p.2 s.tf)) ++ specFlattenList mul p.2 p.1.kids)) :=
  stackLoop_pass mul _ _ fuel st out (fun p hp => wellKinded_pass p.1 (hwk p hp)) hfuel

/-! ### 3./4. the entry point -/

theorem flatten_perm (mul : M → M → M) (one : M) (g : Grp M) (h : WellKinded g) :
    ∃ res, flattenedPaths mul one (fun _ => true) (fun _ => true) g = some res ∧
      res.Perm (specFlatten mul one g) := by
  obtain ⟨res, hres, hperm⟩ := stackLoop_spec mul (size g) [(g, mul one g.tf)] []
    (by intro p hp; simp at hp; subst hp; exact h) (by simp)
  refine ⟨res, by simpa [flattenedPaths] using hres, ?_⟩
  rw [specFlatten_eq]
  simpa [contrib] using hperm

theorem flatten_rejected (mul : M → M → M) (one : M) (pathFilter : Shape M → Bool) (g : Grp M) :
    flattenedPaths mul one (fun _ => false) pathFilter g = some [] := by
  simp [flattenedPaths]

/-! ### 5. the specification drops nothing -/

mutual
  def countShapes : Grp M → Nat
    | .mk _ _ shapes kids => shapes.length + countShapesList kids
  def countShapesList : List (Grp M) → Nat
    | [] => 0
    | g :: gs => countShapes g + countShapesList gs
end

mutual
  def shapeIds : Grp M → List Nat
    | .mk _ _ shapes kids => shapes.map (·.id) ++ shapeIdsList kids
  def shapeIdsList : List (Grp M) → List Nat
    | [] => []
    | g :: gs => shapeIds g ++ shapeIdsList gs
end

mutual
  theorem specFlatten_length (mul : M → M → M) (acc : M) :
      (g : Grp M) → (specFlatten mul acc g).length = countShapes g
    | .mk _ t shapes kids => by
      simp only [specFlatten, countShapes, List.length_append, List.length_map,
        specFlattenList_length mul (mul acc t) kids]
  theorem specFlattenList_length (mul : M → M → M) (acc : M) :
      (gs : List (Grp M)) → (specFlattenList mul acc gs).length = countShapesList gs
    | [] => by simp [specFlattenList, countShapesList]
    | g :: gs => by
      simp only [specFlattenList, countShapesList, List.length_append,
        specFlatten_length mul acc g, specFlattenList_length mul acc gs]
end

mutual
  theorem specFlatten_ids (mul : M → M → M) (acc : M) :
      (g : Grp M) → (specFlatten mul acc g).map Prod.fst = shapeIds g
    | .mk _ t shapes kids => by
      simp only [specFlatten, shapeIds, List.map_append, List.map_map,
        specFlattenList_ids mul (mul acc t) kids]
      rfl
  theorem specFlattenList_ids (mul : M → M → M) (acc : M) :
      (gs : List (Grp M)) → (specFlattenList mul acc gs).map Prod.fst = shapeIdsList gs
    | [] => by simp [specFlattenList, shapeIdsList]
    | g :: gs => by
      simp only [specFlattenList, shapeIdsList, List.map_append,
        specFlatten_ids mul acc g, specFlattenList_ids mul acc gs]
end

/-! ### 7. `fromGroup` with `recursive = true` -/

theorem groupIds_eq (g : Grp M) : groupIds g = g.id :: groupIdsList g.kids := by
  cases g; simp only [groupIds, Grp.id, Grp.kids]

theorem groupIdsList_eq (l : List (Grp M)) : groupIdsList l = l.flatMap groupIds := by
  induction l with
  | nil => simp [groupIdsList]
  | cons g gs ih => simp [groupIdsList, ih]

theorem shapeIds_eq (g : Grp M) : shapeIds g = g.shapes.map (·.id) ++ shapeIdsList g.kids := by
  cases g; simp only [shapeIds, Grp.shapes, Grp.kids]

theorem shapeIdsList_eq (l : List (Grp M)) : shapeIdsList l = l.flatMap shapeIds := by
  induction l with
  | nil => simp [shapeIdsList]
  | cons g gs ih => simp [shapeIdsList, ih]

theorem id_mem_groupIds (g : Grp M) : g.id ∈ groupIds g := by
  rw [groupIds_eq]; exact List.mem_cons_self

theorem mem_groupIds_of_kid {g c : Grp M} (hc : c ∈ g.kids) {x : Nat} (hx : x ∈ groupIds c) :
    x ∈ groupIds g := by
  rw [groupIds_eq, groupIdsList_eq]
  exact List.mem_cons_of_mem _ (List.mem_flatMap.2 ⟨c, hc, hx⟩)

theorem mem_shapeIds_of_kid {g c : Grp M} (hc : c ∈ g.kids) {x : Nat} (hx : x ∈ shapeIds c) :
    x ∈ shapeIds g := by
  rw [shapeIds_eq, shapeIdsList_eq]
  exact List.mem_append_right _ (List.mem_flatMap.2 ⟨c, hc, hx⟩)

theorem size_le_of_kid {g c : Grp M} (hc : c ∈ g.kids) : size c + 1 ≤ size g := by
  rw [size_eq g, sizeList_eq]
  have : ∀ l : List (Grp M), c ∈ l → size c ≤ (l.map size).sum := by
    intro l
    induction l with
    | nil => intro h; cases h
    | cons a l ih =>
      intro h
      rcases List.mem_cons.1 h with rfl | h
      · simp
      · have := ih h; simp only [List.map_cons, List.sum_cons]; omega
  have := this _ hc
  omega

theorem nodup_flatMap_mem {α β : Type} (f : α → List β) (l : List α) (h : (l.flatMap f).Nodup) :
    ∀ c ∈ l, (f c).Nodup := by
  induction l with
  | nil => intro c hc; cases hc
  | cons a l ih =>
    rw [List.flatMap_cons, List.nodup_append] at h
    intro c hc
    rcases List.mem_cons.1 hc with rfl | hc
    · exact h.1
    · exact ih h.2.1 c hc

theorem nodup_flatMap_inj {α β : Type} (f : α → List β) (l : List α) (h : (l.flatMap f).Nodup) :
    ∀ c1 ∈ l, ∀ c2 ∈ l, ∀ x, x ∈ f c1 → x ∈ f c2 → c1 = c2 := by
  induction l with
  | nil => intro c hc; cases hc
  | cons a l ih =>
    rw [List.flatMap_cons, List.nodup_append] at h
    intro c1 h1 c2 h2 x hx1 hx2
    rcases List.mem_cons.1 h1 with e1 | m1 <;> rcases List.mem_cons.1 h2 with e2 | m2
    · rw [e1, e2]
    · subst e1; exact absurd rfl (h.2.2 x hx1 x (List.mem_flatMap.2 ⟨c2, m2, hx2⟩))
    · subst e2; exact absurd rfl (h.2.2 x hx2 x (List.mem_flatMap.2 ⟨c1, m1, hx1⟩))
    · exact ih h.2.1 c1 m1 c2 m2 x hx1 hx2

theorem nodup_kids {g : Grp M} (h : (groupIds g).Nodup) : (g.kids.flatMap groupIds).Nodup := by
  rw [groupIds_eq, groupIdsList_eq] at h; exact (List.nodup_cons.1 h).2

theorem id_not_mem_kids {g : Grp M} (h : (groupIds g).Nodup) : g.id ∉ g.kids.flatMap groupIds := by
  rw [groupIds_eq, groupIdsList_eq] at h; exact (List.nodup_cons.1 h).1

theorem nodup_of_kid {g c : Grp M} (h : (groupIds g).Nodup) (hc : c ∈ g.kids) :
    (groupIds c).Nodup :=
  nodup_flatMap_mem groupIds g.kids (nodup_kids h) c hc

/-- `Route g cs t`: `cs` is a chain of successive children starting below `g` and ending in `t`
(`cs = []` means `t = g`) -/
def Route : Grp M → List (Grp M) → Grp M → Prop
  | g, [], t => g = t
  | g, c :: cs, t => c ∈ g.kids ∧ Route c cs t

/-- `cs` is a chain of successive children starting below `g` -/
def Chain : Grp M → List (Grp M) → Prop
  | _, [] => True
  | g, c :: cs => c ∈ g.kids ∧ Chain c cs

theorem route_iff (cs : List (Grp M)) (g t : Grp M) :
    Route g cs t ↔ Chain g cs ∧ (g :: cs).getLast? = some t := by
  induction cs generalizing g with
  | nil => simp [Route, Chain]
  | cons c cs ih => simp only [Route, Chain, ih c, List.getLast?_cons_cons, and_assoc]

theorem chain_concat (cs : List (Grp M)) (g k : Grp M) :
    Chain g (cs ++ [k]) ↔ Chain g cs ∧ ∃ f, (g :: cs).getLast? = some f ∧ k ∈ f.kids := by
  induction cs generalizing g with
  | nil => simp [Chain]
  | cons c cs ih =>
    simp only [List.cons_append, Chain, ih c, List.getLast?_cons_cons, and_assoc]

theorem route_concat (cs : List (Grp M)) (g k : Grp M) :
    Route g (cs ++ [k]) k ↔ Chain g cs ∧ ∃ f, (g :: cs).getLast? = some f ∧ k ∈ f.kids := by
  rw [route_iff, chain_concat]
  constructor
  · exact fun h => h.1
  · intro h
    refine ⟨h, ?_⟩
    rw [← List.cons_append]
    exact List.getLast?_concat

theorem route_groupIds_subset (cs : List (Grp M)) (g t : Grp M) (h : Route g cs t) :
    ∀ x ∈ groupIds t, x ∈ groupIds g := by
  induction cs generalizing g with
  | nil => simp only [Route] at h; subst h; exact fun x hx => hx
  | cons c cs ih =>
    simp only [Route] at h
    exact fun x hx => mem_groupIds_of_kid h.1 (ih c h.2 x hx)

theorem route_shapeIds_subset (cs : List (Grp M)) (g t : Grp M) (h : Route g cs t) :
    ∀ x ∈ shapeIds t, x ∈ shapeIds g := by
  induction cs generalizing g with
  | nil => simp only [Route] at h; subst h; exact fun x hx => hx
  | cons c cs ih =>
    simp only [Route] at h
    exact fun x hx => mem_shapeIds_of_kid h.1 (ih c h.2 x hx)

theorem route_ids_subset (cs : List (Grp M)) (g t : Grp M) (h : Route g cs t) :
    ∀ c ∈ cs, c.id ∈ groupIds g := by
  induction cs generalizing g with
  | nil => intro c hc; cases hc
  | cons c cs ih =>
    simp only [Route] at h
    intro d hd
    rcases List.mem_cons.1 hd with rfl | hd
    · exact mem_groupIds_of_kid h.1 (id_mem_groupIds _)
    · exact mem_groupIds_of_kid h.1 (ih c h.2 d hd)

/-- in a tree with pairwise distinct group ids, a group id determines the group and its route -/
theorem route_unique (cs1 : List (Grp M)) : ∀ (g : Grp M) (cs2 : List (Grp M)) (a b : Grp M),
    (groupIds g).Nodup → Route g cs1 a → Route g cs2 b → a.id = b.id → cs1 = cs2 ∧ a = b := by
  induction cs1 with
  | nil =>
    intro g cs2 a b hn h1 h2 hid
    simp only [Route] at h1; subst h1
    cases cs2 with
    | nil => simp only [Route] at h2; exact ⟨rfl, h2⟩
    | cons c cs2 =>
      exfalso
      simp only [Route] at h2
      apply id_not_mem_kids hn
      rw [hid]
      exact List.mem_flatMap.2 ⟨c, h2.1, route_groupIds_subset cs2 c b h2.2 _ (id_mem_groupIds b)⟩
  | cons c1 cs1 ih =>
    intro g cs2 a b hn h1 h2 hid
    simp only [Route] at h1
    cases cs2 with
    | nil =>
      exfalso
      simp only [Route] at h2; subst h2
      apply id_not_mem_kids hn
      rw [← hid]
      exact List.mem_flatMap.2 ⟨c1, h1.1, route_groupIds_subset cs1 c1 a h1.2 _ (id_mem_groupIds a)⟩
    | cons c2 cs2 =>
      simp only [Route] at h2
      have hx1 := route_groupIds_subset cs1 c1 a h1.2 _ (id_mem_groupIds a)
      have hx2 := route_groupIds_subset cs2 c2 b h2.2 _ (id_mem_groupIds b)
      rw [← hid] at hx2
      have hc : c1 = c2 := nodup_flatMap_inj groupIds g.kids (nodup_kids hn) c1 h1.1 c2 h2.1 _ hx1 hx2
      subst hc
      obtain ⟨e1, e2⟩ := ih c1 cs2 a b (nodup_of_kid hn h1.1) h1.2 h2.2 hid
      exact ⟨by rw [e1], e2⟩

/-- among siblings with disjoint id sets, a filter that only accepts ids below `c` keeps just `c` -/
theorem filter_unique (gf : Grp M → Bool) (kids : List (Grp M)) (c : Grp M)
    (hn : (kids.flatMap groupIds).Nodup) (hc : c ∈ kids) (hgc : gf c = true)
    (h : ∀ k ∈ kids, gf k = true → k.id ∈ groupIds c) : kids.filter gf = [c] := by
  induction kids with
  | nil => cases hc
  | cons k ks ih =>
    rw [List.flatMap_cons, List.nodup_append] at hn
    rcases List.mem_cons.1 hc with rfl | hc'
    · rw [List.filter_cons_of_pos hgc]
      congr 1
      rw [List.filter_eq_nil_iff]
      intro k' hk' hg'
      exact hn.2.2 _ (h k' (List.mem_cons_of_mem _ hk') hg') _
        (List.mem_flatMap.2 ⟨k', hk', id_mem_groupIds k'⟩) rfl
    · have hk : ¬ gf k = true := by
        intro hg'
        exact hn.2.2 _ (id_mem_groupIds k) _
          (List.mem_flatMap.2 ⟨c, hc', h k List.mem_cons_self hg'⟩) rfl
      rw [List.filter_cons_of_neg hk]
      exact ih hn.2.1 hc' (fun k' hk' => h k' (List.mem_cons_of_mem _ hk'))

theorem harvest_nil (pf : Shape M → Bool) (shapes : List (Shape M))
    (h : ∀ s ∈ shapes, pf s = false) : harvest pf shapes = [] := by
  unfold harvest
  rw [List.flatMap_eq_nil_iff]
  intro k _
  rw [List.filter_eq_nil_iff]
  intro s hs
  simp [h s hs]

mutual
  theorem pass_of_ids (gf : Grp M → Bool) (pf : Shape M → Bool) :
      (g : Grp M) → WellKinded g → (∀ k : Grp M, k.id ∈ groupIds g → gf k = true) →
        (∀ s : Shape M, s.id ∈ shapeIds g → pf s = true) → Pass gf pf g
    | .mk _ _ shapes kids, hwk, hg, hs => by
      simp only [WellKinded] at hwk
      simp only [Pass]
      refine ⟨fun s hs' => ⟨hwk.1 s hs', hs s ?_⟩, passList_of_ids gf pf kids hwk.2 ?_ ?_⟩
      · simp only [shapeIds, List.mem_append, List.mem_map]
        exact Or.inl ⟨s, hs', rfl⟩
      · intro k hk
        exact hg k (by simp only [groupIds]; exact List.mem_cons_of_mem _ hk)
      · intro s hs'
        exact hs s (by simp only [shapeIds]; exact List.mem_append_right _ hs')
  theorem passList_of_ids (gf : Grp M → Bool) (pf : Shape M → Bool) :
      (gs : List (Grp M)) → WellKindedList gs → (∀ k : Grp M, k.id ∈ groupIdsList gs → gf k = true) →
        (∀ s : Shape M, s.id ∈ shapeIdsList gs → pf s = true) → PassList gf pf gs
    | [], _, _, _ => by simp only [PassList]
    | g :: gs, hwk, hg, hs => by
      simp only [WellKindedList] at hwk
      simp only [PassList]
      refine ⟨⟨hg g ?_, pass_of_ids gf pf g hwk.1 ?_ ?_⟩, passList_of_ids gf pf gs hwk.2 ?_ ?_⟩
      · simp only [groupIdsList]; exact List.mem_append_left _ (id_mem_groupIds g)
      · intro k hk; exact hg k (by simp only [groupIdsList]; exact List.mem_append_left _ hk)
      · intro s hs'; exact hs s (by simp only [shapeIdsList]; exact List.mem_append_left _ hs')
      · intro k hk; exact hg k (by simp only [groupIdsList]; exact List.mem_append_right _ hk)
      · intro s hs'; exact hs s (by simp only [shapeIdsList]; exact List.mem_append_right _ hs')
end

/-- walking down the route: every ancestor contributes nothing and forwards exactly the next group -/
theorem descend (mul : M → M → M) (gf : Grp M → Bool) (pf : Shape M → Bool) (target : Grp M)
    (D : List Nat) (hgf : ∀ k : Grp M, gf k = true ↔ k.id ∈ D) (hpass : Pass gf pf target)
    (cs : List (Grp M)) : ∀ (g : Grp M) (tf : M) (fuel : Nat) (out : List (Nat × M)),
    Route g cs target → (groupIds g).Nodup → (∀ c ∈ cs, c.id ∈ D) →
    (∀ x ∈ groupIds g, x ∈ D → x ∈ (g :: cs).map Grp.id ∨ x ∈ groupIds target) →
    (∀ a ∈ (g :: cs).dropLast, ∀ s ∈ a.shapes, pf s = false) → size g ≤ fuel →
    ∃ res, stackLoop mul gf pf fuel [(g, tf)] out = some res ∧
      res.Perm (out ++ contrib mul (target, cs.foldl (fun a c => mul a c.tf) tf)) := by
  induction cs with
  | nil =>
    intro g tf fuel out hr _ _ _ _ hfuel
    simp only [Route] at hr; subst hr
    have := stackLoop_pass mul gf pf fuel [(g, tf)] out
      (by intro p hp; simp at hp; subst hp; exact hpass) (by simpa using hfuel)
    simpa using this
  | cons c cs ih =>
    intro g tf fuel out hr hn hcs hD hpf hfuel
    simp only [Route] at hr
    cases fuel with
    | zero => have := size_eq g; omega
    | succ fuel =>
      have hsh : harvest pf g.shapes = [] :=
        harvest_nil pf g.shapes (hpf g (by simp))
      have hkids : g.kids.filter gf = [c] := by
        apply filter_unique gf g.kids c (nodup_kids hn) hr.1 ((hgf c).2 (hcs c List.mem_cons_self))
        intro k hk hgk
        have hkD : k.id ∈ D := (hgf k).1 hgk
        have hkg : k.id ∈ groupIds g := mem_groupIds_of_kid hk (id_mem_groupIds k)
        rcases hD _ hkg hkD with h | h
        · simp only [List.map_cons, List.mem_cons] at h
          rcases h with h | h | h
          · exfalso
            apply id_not_mem_kids hn
            rw [← h]
            exact List.mem_flatMap.2 ⟨k, hk, id_mem_groupIds k⟩
          · rw [h]; exact id_mem_groupIds c
          · obtain ⟨d, hd, hdk⟩ := List.mem_map.1 h
            rw [← hdk]
            exact route_ids_subset cs c target hr.2 d hd
        · exact route_groupIds_subset cs c target hr.2 _ h
      rw [stackLoop]
      simp only [List.getLast?_singleton, List.dropLast_singleton, hsh, hkids, List.map_nil,
        List.map_cons, List.append_nil, List.nil_append, List.foldl_cons]
      apply ih c (mul tf c.tf) fuel out hr.2 (nodup_of_kid hn hr.1)
        (fun d hd => hcs d (List.mem_cons_of_mem _ hd))
      · intro x hx hxD
        rcases hD x (mem_groupIds_of_kid hr.1 hx) hxD with h | h
        · simp only [List.map_cons, List.mem_cons] at h
          rcases h with h | h
          · exfalso
            apply id_not_mem_kids hn
            rw [← h]
            exact List.mem_flatMap.2 ⟨c, hr.1, hx⟩
          · exact Or.inl (by simpa using h)
        · exact Or.inr h
      · intro a ha
        apply hpf a
        rw [List.dropLast_cons_of_ne_nil (List.cons_ne_nil _ _)]
        exact List.mem_cons_of_mem _ ha
      · have := size_le_of_kid hr.1; omega

/-- frontier size of a queued route -/
def frontSize (r : List (Grp M)) : Nat :=
  match r.getLast? with
  | some f => size f
  | none => 0

theorem frontSize_concat (r : List (Grp M)) (k : Grp M) : frontSize (r ++ [k]) = size k := by
  simp only [frontSize, List.getLast?_concat]

/-- breadth-first search finds a route to a group carrying the requested id -/
theorem findRoute_spec (root target : Grp M) : ∀ (fuel : Nat) (q : List (List (Grp M))),
    (∀ r ∈ q, ∃ cs, r = root :: cs ∧ Chain root cs) →
    (∃ r ∈ q, ∃ f d ds, r.getLast? = some f ∧ Route f (d :: ds) target) →
    (q.map frontSize).sum < fuel →
    ∃ cs f k, findRoute target.id fuel q = some (root :: cs) ∧ Chain root cs ∧
      (root :: cs).getLast? = some f ∧ k ∈ f.kids ∧ k.id = target.id := by
  intro fuel
  induction fuel with
  | zero => intro q _ _ h; omega
  | succ fuel ih =>
    intro q h1 h2 h3
    cases q with
    | nil => obtain ⟨r, hr, _⟩ := h2; cases hr
    | cons top queue =>
      obtain ⟨cs, rfl, hch⟩ := h1 top List.mem_cons_self
      cases hl : (root :: cs).getLast? with
      | none => simp at hl
      | some f =>
        rw [findRoute]
        simp only [hl]
        by_cases hany : f.kids.any (fun k => k.id == target.id) = true
        · rw [if_pos hany]
          obtain ⟨k, hk, hkid⟩ := List.any_eq_true.1 hany
          exact ⟨cs, f, k, rfl, hch, hl, hk, by simpa using hkid⟩
        · rw [if_neg hany]
          apply ih
          · intro r hr
            rcases List.mem_append.1 hr with hr | hr
            · exact h1 r (List.mem_cons_of_mem _ hr)
            · obtain ⟨k, hk, rfl⟩ := List.mem_map.1 hr
              exact ⟨cs ++ [k], rfl, (chain_concat cs root k).2 ⟨hch, f, hl, hk⟩⟩
          · obtain ⟨r, hr, f', d, ds, hf', hroute⟩ := h2
            rcases List.mem_cons.1 hr with rfl | hr
            · rw [hl] at hf'
              cases hf'
              simp only [Route] at hroute
              cases ds with
              | nil =>
                exfalso
                simp only [Route] at hroute
                apply hany
                exact List.any_eq_true.2 ⟨d, hroute.1, by simp [hroute.2]⟩
              | cons d' ds' =>
                refine ⟨(root :: cs) ++ [d], List.mem_append_right _
                  (List.mem_map.2 ⟨d, hroute.1, rfl⟩), d, d', ds', List.getLast?_concat, hroute.2⟩
            · exact ⟨r, List.mem_append_left _ hr, f', d, ds, hf', hroute⟩
          · have hfs : frontSize (root :: cs) = size f := by simp only [frontSize, hl]
            have hsum : ((f.kids.map (fun k => (root :: cs) ++ [k])).map frontSize).sum
                = sizeList f.kids := by
              rw [sizeList_eq, List.map_map]
              congr 1
              apply List.map_congr_left
              intro k _
              exact frontSize_concat _ k
            have := size_eq f
            simp only [List.map_cons, List.sum_cons, List.map_append, List.sum_append_nat, hfs]
              at h3 ⊢
            rw [hsum]
            omega

/-- shapes below the target do not carry an id of a shape directly inside a proper ancestor -/
theorem route_shape_disjoint (cs : List (Grp M)) : ∀ (g t : Grp M), Route g cs t →
    (shapeIds g).Nodup → ∀ x ∈ shapeIds t,
      x ∉ ((g :: cs).dropLast).flatMap (fun a => a.shapes.map (·.id)) := by
  induction cs with
  | nil => intro g t _ _ x _; simp
  | cons c cs ih =>
    intro g t hr hn x hx
    simp only [Route] at hr
    rw [List.dropLast_cons_of_ne_nil (List.cons_ne_nil _ _), List.flatMap_cons, List.mem_append]
    have hxc : x ∈ shapeIds c := route_shapeIds_subset cs c t hr.2 x hx
    rw [shapeIds_eq, shapeIdsList_eq, List.nodup_append] at hn
    rintro (h | h)
    · exact hn.2.2 x h x (List.mem_flatMap.2 ⟨c, hr.1, hxc⟩) rfl
    · exact ih c t hr.2 (nodup_flatMap_mem shapeIds g.kids hn.2.1 c hr.1) x hx h

/-- `flattened_paths_from_group(target, root, recursive=True)` for a proper descendant `target`
reached from `root` through `cs = [g1, …, parent]`: exactly the shapes below `target`, each with the
product `one · root · g1 ⋯ parent · target ⋯ shape` -/
theorem fromGroup_recursive (mul : M → M → M) (one : M) (root target : Grp M) (cs : List (Grp M))
    (hroute : Route root (cs ++ [target]) target) (hids : (groupIds root).Nodup)
    (hsh : (shapeIds root).Nodup) (hwk : WellKinded target) :
    ∃ res, fromGroup mul one root target true = .paths res ∧
      res.Perm (specFlatten mul (cs.foldl (fun a c => mul a c.tf) (mul one root.tf)) target) := by
  -- the target is below the root and is not the root
  have hmem : (groupIds root).contains target.id = true := by
    rw [List.contains_iff_mem]
    exact route_groupIds_subset _ root target hroute _ (id_mem_groupIds target)
  have hne : (root.id == target.id) = false := by
    cases h : root.id == target.id with
    | false => rfl
    | true =>
      exfalso
      have := route_unique [] root (cs ++ [target]) root target hids rfl hroute (by simpa using h)
      simp at this
  -- the search returns the route
  obtain ⟨cs0, f, k, hfind, hch, hlast, hk, hkid⟩ :=
    findRoute_spec root target (size root + 1) [[root]]
      (by intro r hr; simp at hr; subst hr; exact ⟨[], rfl, trivial⟩)
      (by
        cases cs with
        | nil => exact ⟨[root], List.mem_cons_self, root, target, [], rfl, hroute⟩
        | cons c cs' => exact ⟨[root], List.mem_cons_self, root, c, cs' ++ [target], rfl, hroute⟩)
      (by simp [frontSize])
  have hroute' : Route root (cs0 ++ [k]) k := (route_concat cs0 root k).2 ⟨hch, f, hlast, hk⟩
  obtain ⟨hcs, hkt⟩ := route_unique _ root _ k target hids hroute' hroute hkid
  subst hkt
  have hcs0 : cs0 = cs := List.append_cancel_right hcs
  subst hcs0
  -- run the filtered traversal
  have hdrop : (root :: (cs0 ++ [k])).dropLast = root :: cs0 := by
    rw [← List.cons_append]; exact List.dropLast_concat
  obtain ⟨res, hres, hperm⟩ := descend mul
    (fun g => (groupIds k ++ (root :: cs0).map Grp.id).contains g.id)
    (fun s => !((root :: cs0).flatMap (fun g => g.shapes.map (·.id))).contains s.id) k
    (groupIds k ++ (root :: cs0).map Grp.id) (fun g => List.contains_iff_mem)
    (pass_of_ids _ _ k hwk
      (fun g hg => by
        show List.contains _ _ = true
        rw [List.contains_iff_mem]; exact List.mem_append_left _ hg)
      (fun s hs => by
        have := route_shape_disjoint _ root k hroute hsh s.id hs
        rw [hdrop] at this
        simpa using this))
    (cs0 ++ [k]) root (mul one root.tf) (size root) [] hroute hids
    (by
      intro c hc
      rcases List.mem_append.1 hc with hc | hc
      · exact List.mem_append_right _ (List.mem_cons_of_mem _ (List.mem_map.2 ⟨c, hc, rfl⟩))
      · simp only [List.mem_singleton] at hc
        subst hc
        exact List.mem_append_left _ (id_mem_groupIds c))
    (by
      intro x _ hx
      rcases List.mem_append.1 hx with hx | hx
      · exact Or.inr hx
      · refine Or.inl ?_
        rw [← List.cons_append, List.map_append]
        exact List.mem_append_left _ hx)
    (by
      intro a ha s hs
      rw [hdrop] at ha
      have : s.id ∈ (root :: cs0).flatMap (fun g => g.shapes.map (·.id)) :=
        List.mem_flatMap.2 ⟨a, ha, List.mem_map.2 ⟨s, hs, rfl⟩⟩
      have h' := List.contains_iff_mem.2 this
      simp only [h', Bool.not_true])
    (Nat.le_refl _)
  refine ⟨res, ?_, ?_⟩
  · unfold fromGroup
    simp only [hmem, hne, hfind, Bool.not_true, Bool.false_eq_true, if_false, if_true]
    have hroot : (groupIds k ++ (root :: cs0).map Grp.id).contains root.id = true := by
      rw [List.contains_iff_mem]
      exact List.mem_append_right _ List.mem_cons_self
    unfold flattenedPaths
    simp only [hroot, if_true]
    rw [hres]
  · rw [specFlatten_eq]
    simpa [List.foldl_append] using hperm

/-! ### 6. non-vacuity -/

/-- root(10) [tf [1]] : shapes 100 (rect, kind 6, tf [7]), 101 (path, kind 0, tf [8]);
kids: a(11) [tf [2]] : shape 110 (circle, kind 1, tf []) ; kid c(13) [tf [4]] : shapes 130 (kind 3), 131 (kind 0)
      b(12) [tf [3]] : shape 120 (kind 2, tf [9]) -/
def exC : Grp (List Nat) := .mk 13 [4] [⟨3, 130, [5]⟩, ⟨0, 131, [6]⟩] []
def exA : Grp (List Nat) := .mk 11 [2] [⟨1, 110, []⟩] [exC]
def exTree : Grp (List Nat) :=
  .mk 10 [1] [⟨6, 100, [7]⟩, ⟨0, 101, [8]⟩] [exA, .mk 12 [3] [⟨2, 120, [9]⟩] []]

example : WellKinded exTree := by
  simp [exTree, exA, exC, WellKinded, WellKindedList, nKinds]

example : flattenedPaths (· ++ ·) [] (fun _ => true) (fun _ => true) exTree =
    some [(101, [1, 8]), (100, [1, 7]), (120, [1, 3, 9]), (110, [1, 2]),
          (131, [1, 2, 4, 6]), (130, [1, 2, 4, 5])] := by
  decide

example : specFlatten (· ++ ·) [] exTree =
    [(100, [1, 7]), (101, [1, 8]), (110, [1, 2]), (130, [1, 2, 4, 5]), (131, [1, 2, 4, 6]),
     (120, [1, 3, 9])] := by
  decide

/-- the hypotheses of `fromGroup_recursive` are satisfiable (target: group 13 below group 11) -/
example : Route exTree ([exA] ++ [exC]) exC ∧ (groupIds exTree).Nodup ∧ (shapeIds exTree).Nodup ∧
    WellKinded exC := by
  refine ⟨?_, by decide, by decide, ?_⟩
  · simp [Route, exTree, exA, Grp.kids]
  · simp [exC, WellKinded, WellKindedList, nKinds]

/-- the path list of a `fromGroup` result (for evaluation by `decide`) -/
def pathsOf : FromRes M → Option (List (Nat × M))
  | .paths ps => some ps
  | _ => none

example : pathsOf (fromGroup (· ++ ·) [] exTree exC true) =
    some [(131, [1, 2, 4, 6]), (130, [1, 2, 4, 5])] := by
  decide

example : pathsOf (fromGroup (· ++ ·) [] exTree exA true) =
    some [(110, [1, 2]), (131, [1, 2, 4, 6]), (130, [1, 2, 4, 5])] := by
  decide

end SvgVerif.Props.C17Flatten
