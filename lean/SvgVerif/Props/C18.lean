import SvgVerif.Model.Doc
import SvgVerif.Props.C17Flatten

/-! C18: the element-tree model of `Document` (`Model/Doc.lean`): `paths()` returns exactly the
path elements of the tree; `add_path` / `get_or_add_group` add exactly the requested path / no path;
after any history of such operations `paths()` returns the original paths plus the added ones; the
file written by `wsvg` is read back in the order written, with `d` and every supplied attribute. -/
namespace SvgVerif.Props.C18
open SvgVerif.Model.Doc SvgVerif.Model.Flatten
open SvgVerif.Props.C17Flatten

/-! ### 1. `Document.paths()` returns every path element once -/

mutual
  theorem toGrp_wellKinded : (t : DGrp) → WellKinded (toGrp t)
    | .mk _ ps kids => by
      simp only [toGrp, WellKinded]
      refine ⟨?_, toGrpList_wellKinded kids⟩
      intro s hs
      obtain ⟨p, _, rfl⟩ := List.mem_map.1 hs
      show 0 < 7
      omega
  theorem toGrpList_wellKinded : (l : List DGrp) → WellKindedList (toGrpList l)
    | [] => by simp only [toGrpList, WellKindedList]
    | g :: gs => by
      simp only [toGrpList, WellKindedList]
      exact ⟨toGrp_wellKinded g, toGrpList_wellKinded gs⟩
end

mutual
  theorem shapeIds_toGrp : (t : DGrp) → shapeIds (toGrp t) = allPaths t
    | .mk _ ps kids => by
      simp only [toGrp, shapeIds, allPaths, List.map_map, shapeIdsList_toGrpList kids]
      congr 1
      induction ps with
      | nil => rfl
      | cons p ps ih => simp only [List.map_cons, ih]; rfl
  theorem shapeIdsList_toGrpList : (l : List DGrp) → shapeIdsList (toGrpList l) = allPathsList l
    | [] => by simp only [toGrpList, shapeIdsList, allPathsList]
    | g :: gs => by
      simp only [toGrpList, shapeIdsList, allPathsList, shapeIds_toGrp g,
        shapeIdsList_toGrpList gs]
end

mutual
  /-- `add_group` adds an empty group: no path element appears or disappears -/
  theorem rawGroup_allPaths (nm : String) : (parent : List String) → (t : DGrp) →
      allPaths (rawGroup nm parent t) = allPaths t
    | [], .mk n ps kids => by
      have h : ∀ l : List DGrp, allPathsList (l ++ [.mk nm [] []]) = allPathsList l := by
        intro l
        induction l with
        | nil => simp only [List.nil_append, allPathsList, allPaths, List.append_nil]
        | cons g gs ih => simp only [List.cons_append, allPathsList, ih]
      simp only [rawGroup, allPaths, h]
    | p :: rest, .mk n ps kids => by
      simp only [rawGroup, allPaths, rawGroupKids_allPaths nm p rest kids]
  theorem rawGroupKids_allPaths (nm p : String) (rest : List String) : (kids : List DGrp) →
      allPathsList (rawGroupKids nm p rest kids) = allPathsList kids
    | [] => by simp only [rawGroupKids]
    | k :: ks => by
      simp only [rawGroupKids]
      by_cases h : k.name = p
      · simp only [h, if_true, allPathsList, rawGroup_allPaths nm rest k]
      · simp only [h, if_false, allPathsList, rawGroupKids_allPaths nm p rest ks]
end

/-- `Document.paths()` terminates and returns exactly the path elements of the tree, each once -/
theorem docPaths_perm (t : DGrp) : ∃ ps, docPaths t = some ps ∧ ps.Perm (allPaths t) := by
  obtain ⟨res, hres, hperm⟩ :=
    flatten_perm (fun (_ _ : Unit) => ()) () (toGrp t) (toGrp_wellKinded t)
  refine ⟨res.map Prod.fst, ?_, ?_⟩
  · simp only [docPaths, hres, Option.map_some]
  · have := hperm.map Prod.fst
    rwa [specFlatten_ids, shapeIds_toGrp] at this

/-! ### 2. `add_path` adds exactly one path element -/

theorem freshChain_allPaths (pid : Nat) (rest : List String) :
    ∀ nm : String, allPaths (freshChain pid (nm :: rest)) = [pid] := by
  induction rest with
  | nil => intro nm; simp only [freshChain, allPaths, allPathsList, List.append_nil]
  | cons r rs ih =>
    intro nm
    simp only [freshChain, allPaths, allPathsList, ih r, List.append_nil, List.nil_append]

mutual
  theorem addPath_allPaths (pid : Nat) : (names : List String) → (t : DGrp) →
      (allPaths (addPath pid names t)).Perm (pid :: allPaths t)
    | [], .mk n ps kids => by
      simp only [addPath, allPaths, List.append_assoc, List.singleton_append]
      exact List.perm_middle
    | nm :: rest, .mk n ps kids => by
      simp only [addPath, allPaths]
      exact ((addPathKids_allPaths pid nm rest kids).append_left ps).trans List.perm_middle
  theorem addPathKids_allPaths (pid : Nat) (nm : String) (rest : List String) :
      (kids : List DGrp) →
      (allPathsList (addPathKids pid nm rest kids)).Perm (pid :: allPathsList kids)
    | [] => by
      simp only [addPathKids, allPathsList, freshChain_allPaths, List.append_nil]
      exact List.Perm.refl _
    | k :: ks => by
      simp only [addPathKids]
      by_cases h : k.name = nm
      · rw [if_pos h]
        simp only [allPathsList]
        exact (addPath_allPaths pid rest k).append_right _
      · rw [if_neg h]
        simp only [allPathsList]
        exact ((addPathKids_allPaths pid nm rest ks).append_left _).trans List.perm_middle
end

/-! ### 3. `get_or_add_group` adds no path element -/

theorem emptyChain_allPaths (names : List String) : allPaths (emptyChain names) = [] := by
  induction names with
  | nil => simp only [emptyChain, allPaths, allPathsList, List.append_nil]
  | cons nm rest ih =>
    cases rest with
    | nil => simp only [emptyChain, allPaths, allPathsList, List.append_nil]
    | cons r rs => simp only [emptyChain, allPaths, allPathsList, ih, List.append_nil]

mutual
  theorem addGroup_allPaths : (names : List String) → (t : DGrp) →
      allPaths (addGroup names t) = allPaths t
    | [], t => by simp only [addGroup]
    | nm :: rest, .mk n ps kids => by
      simp only [addGroup, allPaths, addGroupKids_allPaths nm rest kids]
  theorem addGroupKids_allPaths (nm : String) (rest : List String) : (kids : List DGrp) →
      allPathsList (addGroupKids nm rest kids) = allPathsList kids
    | [] => by
      simp only [addGroupKids, allPathsList, emptyChain_allPaths, List.append_nil]
    | k :: ks => by
      simp only [addGroupKids]
      by_cases h : k.name = nm
      · rw [if_pos h]
        simp only [allPathsList, addGroup_allPaths rest k]
      · rw [if_neg h]
        simp only [allPathsList, addGroupKids_allPaths nm rest ks]
end

/-! ### 4. an added path is visible to the Document's own `paths()` -/

theorem addPath_visible (pid : Nat) (names : List String) (t : DGrp) :
    ∃ ps, docPaths (addPath pid names t) = some ps ∧ pid ∈ ps ∧
      ∀ q, (∃ qs, docPaths t = some qs ∧ q ∈ qs) → q ∈ ps := by
  obtain ⟨ps, hps, hperm⟩ := docPaths_perm (addPath pid names t)
  have hp := hperm.trans (addPath_allPaths pid names t)
  refine ⟨ps, hps, hp.mem_iff.2 List.mem_cons_self, ?_⟩
  rintro q ⟨qs, hqs, hq⟩
  obtain ⟨qs', hqs', hperm'⟩ := docPaths_perm t
  rw [hqs] at hqs'
  cases hqs'
  exact hp.mem_iff.2 (List.mem_cons_of_mem _ (hperm'.mem_iff.1 hq))

/-! ### 5. any history of operations -/

/-- the path ids added by a history -/
def addedPaths (ops : List Op) : List Nat :=
  ops.filterMap (fun o => match o with | .addPath _ pid => some pid | _ => none)

theorem run_allPaths (ops : List Op) : ∀ t : DGrp,
    (allPaths (run t ops)).Perm (allPaths t ++ addedPaths ops) := by
  induction ops with
  | nil => intro t; simp [run, addedPaths]
  | cons op ops ih =>
    intro t
    have h := ih (applyOp t op)
    have hrun : run t (op :: ops) = run (applyOp t op) ops := rfl
    rw [hrun]
    refine h.trans ?_
    cases op with
    | addPath names pid =>
      have e : addedPaths (Op.addPath names pid :: ops) = pid :: addedPaths ops := rfl
      rw [e]
      simp only [applyOp]
      exact ((addPath_allPaths pid names t).append_right _).trans List.perm_middle.symm
    | addGroup names =>
      have e : addedPaths (Op.addGroup names :: ops) = addedPaths ops := rfl
      rw [e]
      simp only [applyOp, addGroup_allPaths]
      exact List.Perm.refl _
    | rawGroup parent nm =>
      have e : addedPaths (Op.rawGroup parent nm :: ops) = addedPaths ops := rfl
      rw [e]
      simp only [applyOp]
      split <;> rw [rawGroup_allPaths] <;> exact List.Perm.refl _
    | query names =>
      have e : addedPaths (Op.query names :: ops) = addedPaths ops := rfl
      rw [e]
      simp only [applyOp]
      exact List.Perm.refl _

/-- after any history of `add_path` / `get_or_add_group` / `add_group` / queries, `paths()` returns the original paths plus
exactly the added ones -/
theorem history_paths (t : DGrp) (ops : List Op) :
    ∃ ps, docPaths (run t ops) = some ps ∧
      ps.Perm (allPaths t ++ ops.filterMap
        (fun o => match o with | .addPath _ pid => some pid | _ => none)) := by
  obtain ⟨ps, hps, hperm⟩ := docPaths_perm (run t ops)
  exact ⟨ps, hps, hperm.trans (run_allPaths ops t)⟩

/-! ### 6. the file written by `wsvg` is read back in order -/

theorem harvest_kind0 (shapes : List (Shape Unit)) (h : ∀ s ∈ shapes, s.kind = 0) :
    harvest (fun _ => true) shapes = shapes := by
  have hr : List.range nKinds = [0, 1, 2, 3, 4, 5, 6] := by decide
  have h0 : shapes.filter (fun s => s.kind == 0 && true) = shapes :=
    List.filter_eq_self.2 (fun s hs => by simp [h s hs])
  have hk : ∀ k, k ≠ 0 → shapes.filter (fun s => s.kind == k && true) = [] := by
    intro k hk
    rw [List.filter_eq_nil_iff]
    intro s hs
    simp [h s hs, Ne.symm hk]
  unfold harvest
  rw [hr]
  simp only [List.flatMap_cons, List.flatMap_nil, h0, hk 1 (by omega), hk 2 (by omega),
    hk 3 (by omega), hk 4 (by omega), hk 5 (by omega), hk 6 (by omega), List.append_nil]

/-- for a file written by `wsvg`, `Document.paths()` returns the paths in the order written -/
theorem wsvg_docPaths (n : Nat) : docPaths (wsvgDoc n) = some (List.range n) := by
  have hh := harvest_kind0 ((List.range n).map (fun p => ({ kind := 0, id := p, tf := () } : Shape Unit)))
    (by intro s hs; obtain ⟨p, _, rfl⟩ := List.mem_map.1 hs; rfl)
  simp only [docPaths, wsvgDoc, toGrp, toGrpList, flattenedPaths, if_true, size, sizeList]
  rw [stackLoop]
  simp only [List.getLast?_singleton, List.dropLast_singleton, Grp.shapes, Grp.kids, hh,
    List.filter_nil, List.map_nil, List.append_nil, List.nil_append, stackLoop, Option.map_some,
    List.map_map]
  congr 1
  induction (List.range n) with
  | nil => rfl
  | cons p ps ih => simp only [List.map_cons, ih]; rfl

/-! ### 7. attributes -/

theorem wsvgAttrs_d (d : String) (attrs : List (String × String)) :
    (wsvgAttrs d attrs).lookup "d" = some d := by
  simp [wsvgAttrs]

/-- every supplied attribute is written with its value unchanged under svgwrite's key convention -/
theorem wsvgAttrs_supplied (d : String) (attrs : List (String × String)) (k v : String)
    (h : (k, v) ∈ attrs) (hk : k ≠ "d") : (renameKey k, v) ∈ wsvgAttrs d attrs := by
  unfold wsvgAttrs
  apply List.mem_cons_of_mem
  exact List.mem_map.2 ⟨(k, v), List.mem_filter.2 ⟨h, by simpa using hk⟩, rfl⟩

/-! ### 8. non-vacuity -/

/-- root: path 0; group "a": path 1, child group "b": path 2; a second group "a" (never entered) -/
def exDoc : DGrp :=
  .mk "" [0] [.mk "a" [1] [.mk "b" [2] []], .mk "a" [3] []]

def exOps : List Op :=
  [.addPath [] 10, .addPath ["a", "b"] 11, .addPath ["a", "x", "y"] 12, .addGroup ["z"]]

example : run exDoc exOps =
    .mk "" [0, 10]
      [.mk "a" [1] [.mk "b" [2, 11] [], .mk "x" [] [.mk "y" [12] []]], .mk "a" [3] [],
       .mk "z" [] []] := by
  rfl

example : docPaths (run exDoc exOps) = some [0, 10, 3, 1, 12, 2, 11] := by
  decide

example : docPaths (wsvgDoc 3) = some [0, 1, 2] := wsvg_docPaths 3

end SvgVerif.Props.C18
