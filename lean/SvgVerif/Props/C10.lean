import SvgVerif.Gen.C10
import SvgVerif.Model.PathOps
import SvgVerif.Spec.Bernstein
import Mathlib.Tactic.Ring
import Mathlib.Tactic.FieldSimp
import Mathlib.Algebra.CharZero.Defs
import Mathlib.Data.List.Basic
/-! # C10 — translated / rotated / scaled / transform commute with point evaluation

`Gen.C10` is regenerated every run by tracing the real functions.  Ring-mode traces (one
opaque element per control point; `w` stands for `exp(i·radians(deg))`) give identities over
any field of characteristic 0, in particular ℂ.  Coordinate-mode traces (non-uniform scale,
3×3 matrix) give identities in the coordinates over any field, for **every** matrix
`[[a,c,e],[b,d,f],[0,0,1]]`, invertible or not. -/
namespace SvgVerif.Props.C10
open SvgVerif SvgVerif.Spec

set_option linter.unusedSectionVars false
set_option linter.unusedSimpArgs false
set_option linter.unusedVariables false
set_option linter.unusedTactic false
set_option linter.unreachableTactic false
set_option linter.unnecessarySeqFocus false

variable {K : Type} [Field K] [CharZero K]

macro "bern" d:term : tactic =>
  `(tactic| (simp [$d:term, bernstein, bernsteinAux, Nat.choose] <;> ring))

/-! ## translation -/
theorem line_translated (p0 p1 z t : K) :
    Gen.C10.line_translated_point p0 p1 z t = bernstein [p0, p1] t + z := by bern Gen.C10.line_translated_point
theorem quad_translated (p0 p1 p2 z t : K) :
    Gen.C10.quad_translated_point p0 p1 p2 z t = bernstein [p0, p1, p2] t + z := by
  bern Gen.C10.quad_translated_point
theorem cubic_translated (p0 p1 p2 p3 z t : K) :
    Gen.C10.cubic_translated_point p0 p1 p2 p3 z t = bernstein [p0, p1, p2, p3] t + z := by
  bern Gen.C10.cubic_translated_point

/-! ## rotation about `o` by the unit complex `w`; default origin = point(1/2) -/
theorem line_rotated (p0 p1 w o t : K) :
    Gen.C10.line_rotated_point p0 p1 w o t = w * (bernstein [p0, p1] t - o) + o := by
  bern Gen.C10.line_rotated_point
theorem quad_rotated (p0 p1 p2 w o t : K) :
    Gen.C10.quad_rotated_point p0 p1 p2 w o t = w * (bernstein [p0, p1, p2] t - o) + o := by
  bern Gen.C10.quad_rotated_point
theorem cubic_rotated (p0 p1 p2 p3 w o t : K) :
    Gen.C10.cubic_rotated_point p0 p1 p2 p3 w o t = w * (bernstein [p0, p1, p2, p3] t - o) + o := by
  bern Gen.C10.cubic_rotated_point
theorem line_rotated_default (p0 p1 w t : K) :
    Gen.C10.line_rotated_default_point p0 p1 w t
      = w * (bernstein [p0, p1] t - bernstein [p0, p1] (1 / 2)) + bernstein [p0, p1] (1 / 2) := by
  bern Gen.C10.line_rotated_default_point
theorem quad_rotated_default (p0 p1 p2 w t : K) :
    Gen.C10.quad_rotated_default_point p0 p1 p2 w t
      = w * (bernstein [p0, p1, p2] t - bernstein [p0, p1, p2] (1 / 2)) + bernstein [p0, p1, p2] (1 / 2) := by
  bern Gen.C10.quad_rotated_default_point
theorem cubic_rotated_default (p0 p1 p2 p3 w t : K) :
    Gen.C10.cubic_rotated_default_point p0 p1 p2 p3 w t
      = w * (bernstein [p0, p1, p2, p3] t - bernstein [p0, p1, p2, p3] (1 / 2))
        + bernstein [p0, p1, p2, p3] (1 / 2) := by
  bern Gen.C10.cubic_rotated_default_point

/-! ## uniform scaling about `o` (default origin 0) -/
theorem line_scaled (p0 p1 sx o t : K) :
    Gen.C10.line_scaled_point p0 p1 sx o t = (bernstein [p0, p1] t - o) * sx + o ∧
    Gen.C10.line_scaled_default_point p0 p1 sx t = bernstein [p0, p1] t * sx := by
  constructor
  · bern Gen.C10.line_scaled_point
  · bern Gen.C10.line_scaled_default_point
theorem quad_scaled (p0 p1 p2 sx o t : K) :
    Gen.C10.quad_scaled_point p0 p1 p2 sx o t = (bernstein [p0, p1, p2] t - o) * sx + o ∧
    Gen.C10.quad_scaled_default_point p0 p1 p2 sx t = bernstein [p0, p1, p2] t * sx := by
  constructor
  · bern Gen.C10.quad_scaled_point
  · bern Gen.C10.quad_scaled_default_point
theorem cubic_scaled (p0 p1 p2 p3 sx o t : K) :
    Gen.C10.cubic_scaled_point p0 p1 p2 p3 sx o t = (bernstein [p0, p1, p2, p3] t - o) * sx + o ∧
    Gen.C10.cubic_scaled_default_point p0 p1 p2 p3 sx t = bernstein [p0, p1, p2, p3] t * sx := by
  constructor
  · bern Gen.C10.cubic_scaled_point
  · bern Gen.C10.cubic_scaled_default_point

/-! ## non-uniform scaling and arbitrary affine matrices, coordinate-wise -/
theorem line_scaled2 (p0x p0y p1x p1y sx sy ox oy t : K) :
    Gen.C10.line_scaled2_x p0x p0y p1x p1y sx sy ox oy t = (Gen.C10.line_point_x p0x p0y p1x p1y t - ox) * sx + ox ∧
    Gen.C10.line_scaled2_y p0x p0y p1x p1y sx sy ox oy t = (Gen.C10.line_point_y p0x p0y p1x p1y t - oy) * sy + oy := by
  simp only [Gen.C10.line_scaled2_x, Gen.C10.line_scaled2_y, Gen.C10.line_point_x, Gen.C10.line_point_y]
  constructor <;> ring
theorem quad_scaled2 (p0x p0y p1x p1y p2x p2y sx sy ox oy t : K) :
    Gen.C10.quad_scaled2_x p0x p0y p1x p1y p2x p2y sx sy ox oy t
      = (Gen.C10.quad_point_x p0x p0y p1x p1y p2x p2y t - ox) * sx + ox ∧
    Gen.C10.quad_scaled2_y p0x p0y p1x p1y p2x p2y sx sy ox oy t
      = (Gen.C10.quad_point_y p0x p0y p1x p1y p2x p2y t - oy) * sy + oy := by
  simp only [Gen.C10.quad_scaled2_x, Gen.C10.quad_scaled2_y, Gen.C10.quad_point_x, Gen.C10.quad_point_y]
  constructor <;> (field_simp; ring)
theorem cubic_scaled2 (p0x p0y p1x p1y p2x p2y p3x p3y sx sy ox oy t : K) :
    Gen.C10.cubic_scaled2_x p0x p0y p1x p1y p2x p2y p3x p3y sx sy ox oy t
      = (Gen.C10.cubic_point_x p0x p0y p1x p1y p2x p2y p3x p3y t - ox) * sx + ox ∧
    Gen.C10.cubic_scaled2_y p0x p0y p1x p1y p2x p2y p3x p3y sx sy ox oy t
      = (Gen.C10.cubic_point_y p0x p0y p1x p1y p2x p2y p3x p3y t - oy) * sy + oy := by
  simp only [Gen.C10.cubic_scaled2_x, Gen.C10.cubic_scaled2_y, Gen.C10.cubic_point_x, Gen.C10.cubic_point_y]
  constructor <;> (field_simp; ring)

/-- `transform(seg, M).point(t) = M · point(t)` for every 2×3 affine matrix -/
theorem line_transform (p0x p0y p1x p1y a b c d e f t : K) :
    Gen.C10.line_transform_x p0x p0y p1x p1y a b c d e f t
      = a * Gen.C10.line_point_x p0x p0y p1x p1y t + c * Gen.C10.line_point_y p0x p0y p1x p1y t + e ∧
    Gen.C10.line_transform_y p0x p0y p1x p1y a b c d e f t
      = b * Gen.C10.line_point_x p0x p0y p1x p1y t + d * Gen.C10.line_point_y p0x p0y p1x p1y t + f := by
  simp only [Gen.C10.line_transform_x, Gen.C10.line_transform_y, Gen.C10.line_point_x, Gen.C10.line_point_y]
  constructor <;> ring
theorem quad_transform (p0x p0y p1x p1y p2x p2y a b c d e f t : K) :
    Gen.C10.quad_transform_x p0x p0y p1x p1y p2x p2y a b c d e f t
      = a * Gen.C10.quad_point_x p0x p0y p1x p1y p2x p2y t + c * Gen.C10.quad_point_y p0x p0y p1x p1y p2x p2y t + e ∧
    Gen.C10.quad_transform_y p0x p0y p1x p1y p2x p2y a b c d e f t
      = b * Gen.C10.quad_point_x p0x p0y p1x p1y p2x p2y t + d * Gen.C10.quad_point_y p0x p0y p1x p1y p2x p2y t + f := by
  simp only [Gen.C10.quad_transform_x, Gen.C10.quad_transform_y, Gen.C10.quad_point_x, Gen.C10.quad_point_y]
  constructor <;> ring
theorem cubic_transform (p0x p0y p1x p1y p2x p2y p3x p3y a b c d e f t : K) :
    Gen.C10.cubic_transform_x p0x p0y p1x p1y p2x p2y p3x p3y a b c d e f t
      = a * Gen.C10.cubic_point_x p0x p0y p1x p1y p2x p2y p3x p3y t
        + c * Gen.C10.cubic_point_y p0x p0y p1x p1y p2x p2y p3x p3y t + e ∧
    Gen.C10.cubic_transform_y p0x p0y p1x p1y p2x p2y p3x p3y a b c d e f t
      = b * Gen.C10.cubic_point_x p0x p0y p1x p1y p2x p2y p3x p3y t
        + d * Gen.C10.cubic_point_y p0x p0y p1x p1y p2x p2y p3x p3y t + f := by
  simp only [Gen.C10.cubic_transform_x, Gen.C10.cubic_transform_y, Gen.C10.cubic_point_x, Gen.C10.cubic_point_y]
  constructor <;> ring

/-- the coordinate-wise traces of `point` are the Bernstein curves of the coordinates -/
theorem point_coords (p0x p0y p1x p1y p2x p2y p3x p3y t : K) :
    Gen.C10.cubic_point_x p0x p0y p1x p1y p2x p2y p3x p3y t = bernstein [p0x, p1x, p2x, p3x] t ∧
    Gen.C10.cubic_point_y p0x p0y p1x p1y p2x p2y p3x p3y t = bernstein [p0y, p1y, p2y, p3y] t ∧
    Gen.C10.quad_point_x p0x p0y p1x p1y p2x p2y t = bernstein [p0x, p1x, p2x] t ∧
    Gen.C10.quad_point_y p0x p0y p1x p1y p2x p2y t = bernstein [p0y, p1y, p2y] t ∧
    Gen.C10.line_point_x p0x p0y p1x p1y t = bernstein [p0x, p1x] t ∧
    Gen.C10.line_point_y p0x p0y p1x p1y t = bernstein [p0y, p1y] t := by
  refine ⟨?_, ?_, ?_, ?_, ?_, ?_⟩
  · bern Gen.C10.cubic_point_x
  · bern Gen.C10.cubic_point_y
  · bern Gen.C10.quad_point_x
  · bern Gen.C10.quad_point_y
  · bern Gen.C10.line_point_x
  · bern Gen.C10.line_point_y

/-! ## arcs: the defining data handed to `Arc(...)` is the image of the old data
(flags are checked unchanged by the translator's assertions) -/
theorem arc_data (s e z w o sx cen rad rot : K) :
    Gen.C10.arc_translated_start s z = s + z ∧ Gen.C10.arc_translated_end e z = e + z ∧
    Gen.C10.arc_translated_radius rad = rad ∧ Gen.C10.arc_translated_rotation rot = rot ∧
    Gen.C10.arc_rotated_start s w o = w * (s - o) + o ∧ Gen.C10.arc_rotated_end e w o = w * (e - o) + o ∧
    Gen.C10.arc_rotated_rotation_minus_deg rot = rot ∧
    Gen.C10.arc_rotated_default_start s w cen = w * (s - cen) + cen ∧
    Gen.C10.arc_scaled_start s sx o = sx * (s - o) + o ∧ Gen.C10.arc_scaled_end e sx o = sx * (e - o) + o ∧
    Gen.C10.arc_scaled_radius rad sx = sx * rad := by
  simp only [Gen.C10.arc_translated_start, Gen.C10.arc_translated_end, Gen.C10.arc_translated_radius,
    Gen.C10.arc_translated_rotation, Gen.C10.arc_rotated_start, Gen.C10.arc_rotated_end,
    Gen.C10.arc_rotated_rotation_minus_deg, Gen.C10.arc_rotated_default_start, Gen.C10.arc_scaled_start,
    Gen.C10.arc_scaled_end, Gen.C10.arc_scaled_radius]
  refine ⟨?_, ?_, ?_, ?_, ?_, ?_, ?_, ?_, ?_, ?_, ?_⟩ <;> first | trivial | ring

/-! ## paths: joints that coincided exactly still coincide exactly (law-free) -/
open SvgVerif.Model.PathOps SvgVerif.Model.PathParam

section weld
variable {P Q : Type} [DecidableEq P]

theorem rot1_length {α : Type} (l : List α) : (rot1 l).length = l.length := by
  cases l <;> simp [rot1]

theorem rot1_getElem? {α : Type} (l : List α) (i : ℕ) (h : i < l.length) :
    (rot1 l)[i]? = l[(i + 1) % l.length]? := by
  cases l with
  | nil => simp at h
  | cons x xs =>
    simp only [rot1, List.length_cons]
    by_cases hi : i < xs.length
    · rw [List.getElem?_append_left hi, Nat.mod_eq_of_lt (by omega)]; simp
    · have : i = xs.length := by simp at h; omega
      subst this
      simp

theorem weld_length (orig : List (Ends P)) (tr : List (Ends Q)) (h : orig.length = tr.length) :
    (weld orig tr).length = tr.length := by
  simp [weld, rot1_length, h]

/-- segment `i` of the result keeps its transformed start; its end is the next transformed
start (cyclically) exactly when the original joint coincided -/
theorem weld_get (orig : List (Ends P)) (tr : List (Ends Q)) (hlen : orig.length = tr.length)
    (i : ℕ) (hi : i < tr.length) (o on : Ends P) (t tn : Ends Q)
    (ho : orig[i]? = some o) (hon : orig[(i + 1) % tr.length]? = some on)
    (ht : tr[i]? = some t) (htn : tr[(i + 1) % tr.length]? = some tn) :
    (weld orig tr)[i]? = some (t.1, if o.2 = on.1 then tn.1 else t.2) := by
  have h1 : (rot1 (orig.map (·.1)))[i]? = some on.1 := by
    rw [rot1_getElem? _ _ (by simpa [hlen] using hi)]; simp [hlen, hon]
  have h2 : (rot1 (tr.map (·.1)))[i]? = some tn.1 := by
    rw [rot1_getElem? _ _ (by simpa using hi)]; simp [htn]
  have z1 : (orig.zip (rot1 (orig.map (·.1))))[i]? = some (o, on.1) := by
    rw [List.getElem?_zip_eq_some]; exact ⟨ho, h1⟩
  have z2 : (tr.zip (rot1 (tr.map (·.1))))[i]? = some (t, tn.1) := by
    rw [List.getElem?_zip_eq_some]; exact ⟨ht, h2⟩
  simp [weld, List.getElem?_zipWith, z1, z2]

/-- **joints preserved**: if `end_i = start_{i+1}` (indices mod n, so including the closing
joint of a closed path) held exactly before, it holds exactly after — whatever the
per-segment transformation did, because the end is *assigned* the neighbour's start. -/
theorem joints_preserved (orig : List (Ends P)) (tr : List (Ends Q)) (hlen : orig.length = tr.length)
    (i : ℕ) (hi : i < tr.length) (o on : Ends P)
    (ho : orig[i]? = some o) (hon : orig[(i + 1) % tr.length]? = some on) (hjoin : o.2 = on.1) :
    ∃ r rn, (weld orig tr)[i]? = some r ∧ (weld orig tr)[(i + 1) % tr.length]? = some rn ∧ r.2 = rn.1 := by
  have hn : 0 < tr.length := by omega
  have hj : (i + 1) % tr.length < tr.length := Nat.mod_lt _ hn
  have hjj : ((i + 1) % tr.length + 1) % tr.length < tr.length := Nat.mod_lt _ hn
  obtain ⟨t, ht⟩ : ∃ t, tr[i]? = some t := ⟨tr[i], by simp [hi]⟩
  obtain ⟨tn, htn⟩ : ∃ tn, tr[(i + 1) % tr.length]? = some tn := ⟨tr[(i + 1) % tr.length], by simp [hj]⟩
  obtain ⟨tnn, htnn⟩ : ∃ t, tr[((i + 1) % tr.length + 1) % tr.length]? = some t :=
    ⟨tr[((i + 1) % tr.length + 1) % tr.length], by simp [hjj]⟩
  obtain ⟨onn, honn⟩ : ∃ t, orig[((i + 1) % tr.length + 1) % tr.length]? = some t :=
    ⟨orig[((i + 1) % tr.length + 1) % tr.length]'(by omega), by simp [hlen, hjj]⟩
  have e1 := weld_get orig tr hlen i hi o on t tn ho hon ht htn
  have e2 := weld_get orig tr hlen ((i + 1) % tr.length) hj on onn tn tnn hon honn htn htnn
  exact ⟨_, _, e1, e2, by simp [hjoin]⟩

/-- non-vacuity and the pre-repair defect (F26): on a closed triangle the closing joint is
welded by `weld` and left open by `weldOpen` -/
example : weld [(0, 1), (1, 2), (2, 0)] [(10, 11), (20, 21), (30, 31)] = [(10, 20), (20, 30), (30, 10)] := by
  decide
theorem weldOpen_loses_closing_joint :
    weldOpen [(0, 1), (1, 2), (2, 0)] [(10, 11), (20, 21), (30, 31)] = [(10, 20), (20, 30), (30, 31)] := by
  decide
end weld

end SvgVerif.Props.C10
