import SvgVerif.Model.InvArc
import Mathlib.Data.Fintype.Card
import Mathlib.Data.Finset.Card
import Mathlib.Order.Basic
import Mathlib.Data.Fintype.Basic
import Mathlib.Tactic.Linarith
import Mathlib.Algebra.Order.Field.Basic
/-! # C07 — ilength inverts length on [0, L], is monotone, total and terminates

Theorems about the hand model `SvgVerif.Model.InvArc` of `inv_arclength` (tied to the code by
exact correspondence on `Fraction` stubs and by a bit-exact `Float` run of the stall regime).
The *grid* theorems are about an arbitrary finite linear order of parameter values with an
arbitrary midpoint function that stays inside its interval — in particular the IEEE doubles
with `(a+b)/2` — and an arbitrary length function: this is how the float-resolution clause of
the statement ("returns rather than looping or raising, for curves of any size") is brought
inside the model. -/
namespace SvgVerif.Props.C07
open SvgVerif.Model.InvArc

section generic
variable {G V : Type}

/-- a tolerance exit really is within tolerance: `|s(t) - s| < s_tol` -/
theorem bisect_ret_close (mid : G → G → G) (eqb : G → G → Bool) (len : G → V) (close below : V → Bool)
    (n : ℕ) (lo hi t : G) (h : bisect mid eqb len close below n lo hi = .ret t) : close (len t) = true := by
  induction n generalizing lo hi with
  | zero => simp [bisect] at h
  | succ n ih =>
    unfold bisect at h
    by_cases hc : close (len (mid lo hi)) = true
    · simp only [hc, if_true] at h; cases h; exact hc
    · simp only [hc] at h
      by_cases he : (eqb (mid lo hi) lo || eqb (mid lo hi) hi) = true
      · simp [he] at h
      · simp only [he] at h
        by_cases hb : below (len (mid lo hi)) = true
        · simp only [hb, if_true] at h; exact ih _ _ h
        · simp only [hb] at h; exact ih _ _ h
end generic

section grid
variable {G V : Type} [LinearOrder G] [Fintype G]

/-- number of grid points strictly between `lo` and `hi` -/
def interior (lo hi : G) : ℕ := (Finset.univ.filter (fun x : G => lo < x ∧ x < hi)).card

theorem interior_lt_of_mem (lo hi t : G) (h1 : lo < t) (h2 : t < hi) :
    interior t hi < interior lo hi ∧ interior lo t < interior lo hi := by
  unfold interior
  constructor
  · apply Finset.card_lt_card
    rw [Finset.ssubset_iff_of_subset]
    · exact ⟨t, by simp [h1, h2], by simp⟩
    · intro x hx; simp at hx ⊢; exact ⟨lt_trans h1 hx.1, hx.2⟩
  · apply Finset.card_lt_card
    rw [Finset.ssubset_iff_of_subset]
    · exact ⟨t, by simp [h1, h2], by simp⟩
    · intro x hx; simp at hx ⊢; exact ⟨hx.1, lt_trans hx.2 h2⟩

/-- **totality on any finite grid.**  Whatever the length function, the target and the
tolerance, if the midpoint stays inside its interval the repaired loop returns — by the
tolerance exit or the stall exit — before the iteration budget is exhausted, as soon as the
budget exceeds the number of grid points strictly between the initial ends.  It never reaches
`raise Exception("Maximum iterations reached")`. -/
theorem bisect_total (mid : G → G → G) (hmid : ∀ a b, a ≤ b → a ≤ mid a b ∧ mid a b ≤ b)
    (len : G → V) (close below : V → Bool) (n : ℕ) (lo hi : G) (hle : lo ≤ hi)
    (hn : interior lo hi < n) :
    bisect mid (fun a b => decide (a = b)) len close below n lo hi ≠ .maxits := by
  induction n generalizing lo hi with
  | zero => omega
  | succ n ih =>
    unfold bisect
    by_cases hc : close (len (mid lo hi)) = true
    · simp [hc]
    · simp only [hc]
      by_cases he : (decide (mid lo hi = lo) || decide (mid lo hi = hi)) = true
      · simp [he]
      · simp only [he]
        have he' : mid lo hi ≠ lo ∧ mid lo hi ≠ hi := by
          simp at he; exact he
        have hm := hmid lo hi hle
        have h1 : lo < mid lo hi := lt_of_le_of_ne hm.1 (Ne.symm he'.1)
        have h2 : mid lo hi < hi := lt_of_le_of_ne hm.2 he'.2
        have hlt := interior_lt_of_mem lo hi _ h1 h2
        by_cases hb : below (len (mid lo hi)) = true
        · simp only [hb, if_true]
          exact ih _ _ h2.le (by omega)
        · simp only [hb]
          exact ih _ _ h1.le (by omega)

/-- every returned parameter lies between the initial ends -/
theorem bisect_range (mid : G → G → G) (hmid : ∀ a b, a ≤ b → a ≤ mid a b ∧ mid a b ≤ b)
    (len : G → V) (close below : V → Bool) (n : ℕ) (lo hi : G) (hle : lo ≤ hi) (t : G)
    (h : bisect mid (fun a b => decide (a = b)) len close below n lo hi = .ret t ∨
         bisect mid (fun a b => decide (a = b)) len close below n lo hi = .stall t) :
    lo ≤ t ∧ t ≤ hi := by
  induction n generalizing lo hi with
  | zero => simp [bisect] at h
  | succ n ih =>
    unfold bisect at h
    have hm := hmid lo hi hle
    by_cases hc : close (len (mid lo hi)) = true
    · simp only [hc, if_true] at h
      rcases h with h | h <;> cases h; exact hm
    · simp only [hc] at h
      by_cases he : (decide (mid lo hi = lo) || decide (mid lo hi = hi)) = true
      · simp only [he, if_true] at h
        rcases h with h | h <;> cases h; exact hm
      · simp only [he] at h
        by_cases hb : below (len (mid lo hi)) = true
        · simp only [hb, if_true] at h
          have := ih _ _ hm.2 h
          exact ⟨le_trans hm.1 this.1, this.2⟩
        · simp only [hb] at h
          have := ih _ _ hm.1 h
          exact ⟨this.1, le_trans this.2 hm.2⟩
end grid

/-! ## the pre-repair loop does not have this property (finding F19)

Two-point grid `{false < true}`, midpoint rounding down, a length function that is never
within tolerance and always below the target: the old stall test `t_upper == t_lower` never
fires because `t_lower` is re-assigned to itself for ever. -/

/-- "the loop returns on every finite grid", as a property of a loop implementation -/
def TotalOnGrids (loop : (Bool → Bool → Bool) → (Bool → Bool → Bool) → (Bool → Unit) → (Unit → Bool) → (Unit → Bool) →
    ℕ → Bool → Bool → BRes Bool) : Prop :=
  ∀ n, 2 < n → loop (fun a _ => a) (fun a b => decide (a = b)) (fun _ => ()) (fun _ => false) (fun _ => true) n false true ≠ .maxits

theorem totalOnGrids_bisect : TotalOnGrids bisect := by
  intro n hn
  apply bisect_total (G := Bool) (V := Unit) (fun a _ => a)
  · intro a b h; exact ⟨le_refl a, h⟩
  · decide
  · have : interior false true = 0 := by decide
    omega

theorem bisectBuggy_loops (n : ℕ) :
    bisectBuggy (fun (a _ : Bool) => a) (fun a b => decide (a = b)) (fun _ => ()) (fun _ => false) (fun _ => true)
      n false true = .maxits := by
  induction n with
  | zero => rfl
  | succ n ih => simp [bisectBuggy, ih]

theorem not_totalOnGrids_bisectBuggy : ¬ TotalOnGrids bisectBuggy :=
  fun h => h 3 (by omega) (bisectBuggy_loops 3)

/-! ## exact arithmetic: range check, shortcuts, Line branch -/
section exact
variable {K : Type} [Field K] [LinearOrder K] [IsStrictOrderedRing K]

/-- outside `[0, L]` ⇒ `ValueError`; `ilength(0) = 0`; `ilength(L) = 1` (segments) -/
theorem invSeg_range (len : K → K) (sTol : K) (maxits : ℕ) (s : K) (hL : 0 < len 1) :
    (s < 0 ∨ len 1 < s → invSeg len sTol maxits s = .valueError) ∧
    invSeg len sTol maxits 0 = .value 0 ∧ invSeg len sTol maxits (len 1) = .value 1 := by
  refine ⟨?_, ?_, ?_⟩
  · intro h
    unfold invSeg
    have : ¬ (0 ≤ s ∧ s ≤ len 1) := by
      rcases h with h | h
      · exact fun hh => absurd hh.1 (not_le.mpr h)
      · exact fun hh => absurd hh.2 (not_le.mpr h)
    simp [hL, this]
  · unfold invSeg; simp [hL, hL.le]
  · unfold invSeg; simp [hL, hL.le, hL.ne']

/-- on a Line of length `L > 0`: the result `t = s/L` lies in `[0,1]` and `L·t = s` exactly -/
theorem invLine_spec (L s : K) (hL : 0 < L) (h0 : 0 ≤ s) (h1 : s ≤ L) :
    ∃ t, invLine L s = .value t ∧ 0 ≤ t ∧ t ≤ 1 ∧ L * t = s := by
  unfold invLine
  by_cases hs0 : s = 0
  · exact ⟨0, by simp [hL, hs0, hL.le], le_refl _, zero_le_one, by simp [hs0]⟩
  · by_cases hsL : s = L
    · exact ⟨1, by simp [hL, hsL, hL.le, hL.ne'], zero_le_one, le_refl _, by simp [hsL]⟩
    · exact ⟨s / L, by simp [hL, h0, h1, hs0, hsL], div_nonneg h0 hL.le, (div_le_one hL).mpr h1,
        mul_div_cancel₀ s hL.ne'⟩

/-- monotone on Lines: `s₁ ≤ s₂ → ilength s₁ ≤ ilength s₂` -/
theorem invLine_mono (L s1 s2 : K) (hL : 0 < L) (h : s1 ≤ s2) : s1 / L ≤ s2 / L :=
  div_le_div_of_nonneg_right h hL.le
end exact

end SvgVerif.Props.C07
