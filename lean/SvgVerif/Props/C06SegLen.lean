import SvgVerif.Model.Length
import Mathlib.Topology.MetricSpace.Pseudo.Defs
import Mathlib.Data.Real.Basic
import Mathlib.Algebra.Order.Field.Basic
import Mathlib.Algebra.BigOperators.Group.List.Basic
import Mathlib.Tactic.Linarith
import Mathlib.Tactic.Ring
/-! # C06 — `segment_length` and `Path.length(T0, T1)` bookkeeping

Theorems about the hand model `SvgVerif.Model.Length` (tied to `segment_length` and `Path.length`
by exact correspondence, harness/props/c06.py).

* `segLen` over any pseudo-metric space returns exactly the length of the polygon inscribed at the
  cut parameters `segCuts`, the polygon ends at `pt b`, the result is never shorter than the chord,
  the cuts are a strictly increasing partition of `[a, b]` (for a `mid` strictly inside), the
  result is exact on a geodesic, the interval is always halved below `min_depth`, and more fuel
  never changes a result.
* `pathLength` over an ordered field: whole-path shortcut, single-segment shortcut, and the
  first-partial / whole-middle / last-partial decomposition. -/
namespace SvgVerif.Props.C06SegLen
open SvgVerif.Model.Length SvgVerif.Model.PathParam

section seg
variable {P : Type} [PseudoMetricSpace P] (pt : ℝ → P) (mid : ℝ → ℝ → ℝ) (err : ℝ) (md : ℕ)

/-! ### unfolding equations -/

theorem segLen_zero (depth : ℕ) (a b : ℝ) (pa pb : P) :
    segLen pt (fun p q => dist p q) mid err md 0 depth a b pa pb = none := rfl

theorem segLen_succ (fuel depth : ℕ) (a b : ℝ) (pa pb : P) :
    segLen pt (fun p q => dist p q) mid err md (fuel + 1) depth a b pa pb =
      if err < dist (pt (mid a b)) pa + dist pb (pt (mid a b)) - dist pb pa ∨ depth < md then
        match segLen pt (fun p q => dist p q) mid err md fuel (depth + 1) a (mid a b) pa
                (pt (mid a b)),
              segLen pt (fun p q => dist p q) mid err md fuel (depth + 1) (mid a b) b
                (pt (mid a b)) pb with
        | some x, some y => some (x + y)
        | _, _ => none
      else some (dist (pt (mid a b)) pa + dist pb (pt (mid a b))) := by
  rw [segLen]
  split_ifs
  · cases segLen pt (fun p q => dist p q) mid err md fuel (depth + 1) a (mid a b) pa
        (pt (mid a b)) <;>
      cases segLen pt (fun p q => dist p q) mid err md fuel (depth + 1) (mid a b) b
        (pt (mid a b)) pb <;> rfl
  · rfl

theorem segCuts_zero (depth : ℕ) (a b : ℝ) (pa pb : P) :
    segCuts pt (fun p q => dist p q) mid err md 0 depth a b pa pb = [] := rfl

theorem segCuts_succ (fuel depth : ℕ) (a b : ℝ) (pa pb : P) :
    segCuts pt (fun p q => dist p q) mid err md (fuel + 1) depth a b pa pb =
      if err < dist (pt (mid a b)) pa + dist pb (pt (mid a b)) - dist pb pa ∨ depth < md then
        segCuts pt (fun p q => dist p q) mid err md fuel (depth + 1) a (mid a b) pa
            (pt (mid a b)) ++
          segCuts pt (fun p q => dist p q) mid err md fuel (depth + 1) (mid a b) b
            (pt (mid a b)) pb
      else [mid a b, b] := rfl

/-- the recursive branch returns `some v` only if both halves do -/
theorem segLen_branch_some {l r : Option ℝ} {v : ℝ}
    (h : (match l, r with
          | some x, some y => some (x + y)
          | _, _ => none) = some v) :
    ∃ x y, l = some x ∧ r = some y ∧ v = x + y := by
  cases l with
  | none => simp at h
  | some x =>
    cases r with
    | none => simp at h
    | some y =>
      simp only [Option.some.injEq] at h
      exact ⟨x, y, rfl, rfl, h.symm⟩

/-! ### polygons -/

theorem polyLen_nil (a : ℝ) : polyLen pt (fun p q : P => dist p q) a [] = 0 := rfl

theorem polyLen_cons (a c : ℝ) (cs : List ℝ) :
    polyLen pt (fun p q : P => dist p q) a (c :: cs) =
      dist (pt c) (pt a) + polyLen pt (fun p q : P => dist p q) c cs := rfl

/-- the polygon through `a :: xs ++ ys` is the polygon through `a :: xs` followed by the polygon
through `c :: ys`, `c` the last vertex of `xs` -/
theorem polyLen_append (a c : ℝ) (xs ys : List ℝ) (hc : xs.getLast? = some c) :
    polyLen pt (fun p q : P => dist p q) a (xs ++ ys) =
      polyLen pt (fun p q : P => dist p q) a xs + polyLen pt (fun p q : P => dist p q) c ys := by
  induction xs generalizing a with
  | nil => simp at hc
  | cons x xs ih =>
    cases xs with
    | nil =>
      simp only [List.getLast?_singleton, Option.some.injEq] at hc
      subst hc
      simp only [List.cons_append, List.nil_append, polyLen_cons, polyLen_nil, add_zero]
    | cons x' xs' =>
      have hc' : (x' :: xs').getLast? = some c := by
        rw [List.getLast?_cons_cons] at hc
        exact hc
      rw [List.cons_append, polyLen_cons, ih x hc', polyLen_cons pt a x (x' :: xs')]
      ring

theorem polyLen_nonneg (a : ℝ) (cs : List ℝ) :
    0 ≤ polyLen pt (fun p q : P => dist p q) a cs := by
  induction cs generalizing a with
  | nil => exact le_refl _
  | cons c cs ih =>
    rw [polyLen_cons]
    exact add_nonneg dist_nonneg (ih c)

/-! ### the result is the inscribed polygon at the cuts -/

theorem segLen_spec (fuel depth : ℕ) (a b v : ℝ)
    (h : segLen pt (fun p q => dist p q) mid err md fuel depth a b (pt a) (pt b) = some v) :
    (segCuts pt (fun p q => dist p q) mid err md fuel depth a b (pt a) (pt b)).getLast? = some b ∧
    v = polyLen pt (fun p q => dist p q) a
          (segCuts pt (fun p q => dist p q) mid err md fuel depth a b (pt a) (pt b)) := by
  induction fuel generalizing depth a b v with
  | zero => simp [segLen_zero] at h
  | succ n ih =>
    rw [segLen_succ] at h
    rw [segCuts_succ]
    by_cases hc : err < dist (pt (mid a b)) (pt a) + dist (pt b) (pt (mid a b))
        - dist (pt b) (pt a) ∨ depth < md
    · rw [if_pos hc] at h
      rw [if_pos hc]
      obtain ⟨x, y, hx, hy, rfl⟩ := segLen_branch_some h
      obtain ⟨hl1, hx1⟩ := ih (depth + 1) a (mid a b) x hx
      obtain ⟨hl2, hy1⟩ := ih (depth + 1) (mid a b) b y hy
      refine ⟨?_, ?_⟩
      · rw [List.getLast?_append, hl2]
        rfl
      · rw [polyLen_append pt a (mid a b) _ _ hl1, ← hx1, ← hy1]
    · rw [if_neg hc] at h
      rw [if_neg hc]
      simp only [Option.some.injEq] at h
      refine ⟨rfl, ?_⟩
      rw [polyLen_cons, polyLen_cons, polyLen_nil, add_zero]
      exact h.symm

/-- the value returned is exactly the length of the inscribed polygon through the cut
parameters -/
theorem segLen_eq_polyLen (fuel depth : ℕ) (a b v : ℝ)
    (h : segLen pt (fun p q => dist p q) mid err md fuel depth a b (pt a) (pt b) = some v) :
    v = polyLen pt (fun p q => dist p q) a
          (segCuts pt (fun p q => dist p q) mid err md fuel depth a b (pt a) (pt b)) :=
  (segLen_spec pt mid err md fuel depth a b v h).2

/-- the polygon ends at `pt b` -/
theorem segLen_last_cut (fuel depth : ℕ) (a b v : ℝ)
    (h : segLen pt (fun p q => dist p q) mid err md fuel depth a b (pt a) (pt b) = some v) :
    (segCuts pt (fun p q => dist p q) mid err md fuel depth a b (pt a) (pt b)).getLast? =
      some b :=
  (segLen_spec pt mid err md fuel depth a b v h).1

/-- never shorter than the chord -/
theorem segLen_ge_chord (fuel depth : ℕ) (a b v : ℝ)
    (h : segLen pt (fun p q => dist p q) mid err md fuel depth a b (pt a) (pt b) = some v) :
    dist (pt b) (pt a) ≤ v := by
  induction fuel generalizing depth a b v with
  | zero => simp [segLen_zero] at h
  | succ n ih =>
    rw [segLen_succ] at h
    have htri : dist (pt b) (pt a) ≤ dist (pt (mid a b)) (pt a) + dist (pt b) (pt (mid a b)) := by
      have := dist_triangle (pt b) (pt (mid a b)) (pt a)
      linarith
    by_cases hc : err < dist (pt (mid a b)) (pt a) + dist (pt b) (pt (mid a b))
        - dist (pt b) (pt a) ∨ depth < md
    · rw [if_pos hc] at h
      obtain ⟨x, y, hx, hy, rfl⟩ := segLen_branch_some h
      have h1 := ih (depth + 1) a (mid a b) x hx
      have h2 := ih (depth + 1) (mid a b) b y hy
      linarith
    · rw [if_neg hc] at h
      simp only [Option.some.injEq] at h
      linarith

theorem segLen_nonneg (fuel depth : ℕ) (a b v : ℝ)
    (h : segLen pt (fun p q => dist p q) mid err md fuel depth a b (pt a) (pt b) = some v) :
    0 ≤ v :=
  le_trans dist_nonneg (segLen_ge_chord pt mid err md fuel depth a b v h)

/-! ### the cuts are a partition of `[a, b]` -/

theorem segCuts_partition (hmid : ∀ x y, x < y → x < mid x y ∧ mid x y < y)
    (fuel depth : ℕ) (a b v : ℝ) (hab : a < b)
    (h : segLen pt (fun p q => dist p q) mid err md fuel depth a b (pt a) (pt b) = some v) :
    (segCuts pt (fun p q => dist p q) mid err md fuel depth a b (pt a) (pt b)).Pairwise (· < ·) ∧
    ∀ c ∈ segCuts pt (fun p q => dist p q) mid err md fuel depth a b (pt a) (pt b),
      a < c ∧ c ≤ b := by
  induction fuel generalizing depth a b v with
  | zero => simp [segLen_zero] at h
  | succ n ih =>
    rw [segLen_succ] at h
    rw [segCuts_succ]
    obtain ⟨ham, hmb⟩ := hmid a b hab
    by_cases hc : err < dist (pt (mid a b)) (pt a) + dist (pt b) (pt (mid a b))
        - dist (pt b) (pt a) ∨ depth < md
    · rw [if_pos hc] at h
      rw [if_pos hc]
      obtain ⟨x, y, hx, hy, rfl⟩ := segLen_branch_some h
      obtain ⟨hp1, hb1⟩ := ih (depth + 1) a (mid a b) x ham hx
      obtain ⟨hp2, hb2⟩ := ih (depth + 1) (mid a b) b y hmb hy
      refine ⟨?_, ?_⟩
      · rw [List.pairwise_append]
        refine ⟨hp1, hp2, ?_⟩
        intro c hc1 c' hc2
        exact lt_of_le_of_lt (hb1 c hc1).2 (hb2 c' hc2).1
      · intro c hcm
        rw [List.mem_append] at hcm
        rcases hcm with hcm | hcm
        · exact ⟨(hb1 c hcm).1, le_trans (hb1 c hcm).2 (le_of_lt hmb)⟩
        · exact ⟨lt_trans ham (hb2 c hcm).1, (hb2 c hcm).2⟩
    · rw [if_neg hc]
      refine ⟨?_, ?_⟩
      · simp only [List.pairwise_cons, List.mem_singleton, forall_eq, List.not_mem_nil,
          false_imp_iff, implies_true, List.Pairwise.nil, and_true]
        exact hmb
      · intro c hcm
        simp only [List.mem_cons, List.not_mem_nil, or_false] at hcm
        rcases hcm with rfl | rfl
        · exact ⟨ham, le_of_lt hmb⟩
        · exact ⟨hab, le_refl _⟩

/-- for a `mid` strictly inside the interval the cut parameters `a :: cuts` are strictly
increasing: together with `segLen_last_cut` they form a partition of `[a, b]` -/
theorem segLen_cuts_increasing (hmid : ∀ x y, x < y → x < mid x y ∧ mid x y < y)
    (fuel depth : ℕ) (a b v : ℝ) (hab : a < b)
    (h : segLen pt (fun p q => dist p q) mid err md fuel depth a b (pt a) (pt b) = some v) :
    (a :: segCuts pt (fun p q => dist p q) mid err md fuel depth a b (pt a) (pt b)).Pairwise
      (· < ·) := by
  obtain ⟨hp, hb⟩ := segCuts_partition pt mid err md hmid fuel depth a b v hab h
  rw [List.pairwise_cons]
  exact ⟨fun c hc => (hb c hc).1, hp⟩

/-- the same as a chain of consecutive strict inequalities -/
theorem segLen_cuts_isChain (hmid : ∀ x y, x < y → x < mid x y ∧ mid x y < y)
    (fuel depth : ℕ) (a b v : ℝ) (hab : a < b)
    (h : segLen pt (fun p q => dist p q) mid err md fuel depth a b (pt a) (pt b) = some v) :
    (a :: segCuts pt (fun p q => dist p q) mid err md fuel depth a b (pt a) (pt b)).IsChain
      (· < ·) :=
  (segLen_cuts_increasing pt mid err md hmid fuel depth a b v hab h).isChain

/-- every cut lies in `(a, b]` -/
theorem segLen_cuts_mem (hmid : ∀ x y, x < y → x < mid x y ∧ mid x y < y)
    (fuel depth : ℕ) (a b v : ℝ) (hab : a < b)
    (h : segLen pt (fun p q => dist p q) mid err md fuel depth a b (pt a) (pt b) = some v) :
    ∀ c ∈ segCuts pt (fun p q => dist p q) mid err md fuel depth a b (pt a) (pt b),
      a < c ∧ c ≤ b :=
  (segCuts_partition pt mid err md hmid fuel depth a b v hab h).2

/-! ### exactness on a straight, monotonically traversed curve -/

theorem segLen_exact_on_geodesic
    (hgeo : ∀ x m y : ℝ, dist (pt m) (pt x) + dist (pt y) (pt m) = dist (pt y) (pt x))
    (fuel depth : ℕ) (a b v : ℝ)
    (h : segLen pt (fun p q => dist p q) mid err md fuel depth a b (pt a) (pt b) = some v) :
    v = dist (pt b) (pt a) := by
  induction fuel generalizing depth a b v with
  | zero => simp [segLen_zero] at h
  | succ n ih =>
    rw [segLen_succ] at h
    by_cases hc : err < dist (pt (mid a b)) (pt a) + dist (pt b) (pt (mid a b))
        - dist (pt b) (pt a) ∨ depth < md
    · rw [if_pos hc] at h
      obtain ⟨x, y, hx, hy, rfl⟩ := segLen_branch_some h
      rw [ih (depth + 1) a (mid a b) x hx, ih (depth + 1) (mid a b) b y hy]
      exact hgeo a (mid a b) b
    · rw [if_neg hc] at h
      simp only [Option.some.injEq] at h
      rw [← h]
      exact hgeo a (mid a b) b

/-! ### `min_depth` and fuel -/

/-- below `min_depth` the interval is always halved, whatever the error test says -/
theorem segLen_min_depth (fuel depth : ℕ) (a b : ℝ) (pa pb : P) (h : depth < md) :
    segLen pt (fun p q => dist p q) mid err md (fuel + 1) depth a b pa pb =
      match segLen pt (fun p q => dist p q) mid err md fuel (depth + 1) a (mid a b) pa
              (pt (mid a b)),
            segLen pt (fun p q => dist p q) mid err md fuel (depth + 1) (mid a b) b
              (pt (mid a b)) pb with
      | some x, some y => some (x + y)
      | _, _ => none := by
  rw [segLen_succ, if_pos (Or.inr h)]

/-- at or above `min_depth` the error test alone decides -/
theorem segLen_leaf (fuel depth : ℕ) (a b : ℝ) (pa pb : P) (h : md ≤ depth)
    (herr : dist (pt (mid a b)) pa + dist pb (pt (mid a b)) - dist pb pa ≤ err) :
    segLen pt (fun p q => dist p q) mid err md (fuel + 1) depth a b pa pb =
      some (dist (pt (mid a b)) pa + dist pb (pt (mid a b))) := by
  rw [segLen_succ, if_neg]
  rintro (h1 | h1)
  · exact absurd h1 (not_lt.mpr herr)
  · exact absurd h1 (not_lt.mpr h)

/-- more fuel never changes a result -/
theorem segLen_fuel_mono (fuel depth : ℕ) (a b : ℝ) (pa pb : P) (v : ℝ)
    (h : segLen pt (fun p q => dist p q) mid err md fuel depth a b pa pb = some v) :
    segLen pt (fun p q => dist p q) mid err md (fuel + 1) depth a b pa pb = some v := by
  induction fuel generalizing depth a b pa pb v with
  | zero => simp [segLen_zero] at h
  | succ n ih =>
    rw [segLen_succ] at h
    rw [segLen_succ pt mid err md (n + 1)]
    by_cases hc : err < dist (pt (mid a b)) pa + dist pb (pt (mid a b)) - dist pb pa ∨ depth < md
    · rw [if_pos hc] at h
      rw [if_pos hc]
      obtain ⟨x, y, hx, hy, rfl⟩ := segLen_branch_some h
      rw [ih (depth + 1) a (mid a b) pa (pt (mid a b)) x hx,
        ih (depth + 1) (mid a b) b (pt (mid a b)) pb y hy]
    · rw [if_neg hc] at h
      rw [if_neg hc]
      exact h

/-- any amount of extra fuel -/
theorem segLen_fuel_mono_add (fuel k depth : ℕ) (a b : ℝ) (pa pb : P) (v : ℝ)
    (h : segLen pt (fun p q => dist p q) mid err md fuel depth a b pa pb = some v) :
    segLen pt (fun p q => dist p q) mid err md (fuel + k) depth a b pa pb = some v := by
  induction k with
  | zero => exact h
  | succ k ih => exact segLen_fuel_mono pt mid err md (fuel + k) depth a b pa pb v ih

end seg

/-! ### `Path.length(T0, T1)` -/
section path
variable {S : Type} [Field S] [LinearOrder S]

omit [LinearOrder S] in
theorem psum_eq_sum (lens : List S) : psum lens = lens.sum := by
  unfold psum
  rw [List.sum_eq_foldl]

omit [LinearOrder S] in
theorem midSum_eq_sum (seg : ℕ → S → S → S) (i n : ℕ) :
    midSum seg i n = ((List.range n).map (fun j => seg (i + j) 0 1)).sum := by
  unfold midSum
  rw [psum_eq_sum]

theorem calcLengths_fst (lens : List S) : (calcLengths lens).1 = psum lens := by
  unfold calcLengths
  by_cases h : psum lens = 0
  · simp only [h, if_true]
  · simp only [h, if_false]

/-- `pathLength` with the pair destructuring spelled out -/
theorem pathLength_unfold (lens : List S) (seg : ℕ → S → S → S) (T0 T1 : S) :
    pathLength lens seg T0 T1 =
      if T0 = 0 ∧ T1 = 1 then .value (psum lens)
      else if lens.length = 0 then .bug
      else if lens.length = 1 then .value (seg 0 T0 T1)
      else
        match T2t (calcLengths lens).2 T0, T2t (calcLengths lens).2 T1 with
        | some (i0, t0), some (i1, t1) =>
          if i0 = i1 then .value (seg i0 t0 t1)
          else .value (seg i0 t0 1 + midSum seg (i0 + 1) (i1 - (i0 + 1)) + seg i1 0 t1)
        | _, _ => .bug := by
  unfold pathLength
  rw [← calcLengths_fst lens]
  cases calcLengths lens
  rfl

/-- whole-path shortcut: the cached total -/
theorem pathLength_full (lens : List S) (seg : ℕ → S → S → S) :
    pathLength lens seg 0 1 = .value (psum lens) := by
  rw [pathLength_unfold, if_pos ⟨rfl, rfl⟩]

/-- single-segment path: delegated to the segment with the path parameters unchanged -/
theorem pathLength_single (lens : List S) (seg : ℕ → S → S → S) (T0 T1 : S)
    (hlen : lens.length = 1) (hT : ¬(T0 = 0 ∧ T1 = 1)) :
    pathLength lens seg T0 T1 = .value (seg 0 T0 T1) := by
  rw [pathLength_unfold, if_neg hT, if_neg (by omega), if_pos hlen]

/-- both ends in the same segment -/
theorem pathLength_same_segment (lens : List S) (seg : ℕ → S → S → S) (T0 T1 : S)
    (i0 i1 : ℕ) (t0 t1 : S) (hlen : 2 ≤ lens.length) (hT : ¬(T0 = 0 ∧ T1 = 1))
    (h0 : T2t (calcLengths lens).2 T0 = some (i0, t0))
    (h1 : T2t (calcLengths lens).2 T1 = some (i1, t1)) (hi : i0 = i1) :
    pathLength lens seg T0 T1 = .value (seg i0 t0 t1) := by
  rw [pathLength_unfold, if_neg hT, if_neg (by omega), if_neg (by omega), h0, h1]
  simp only [hi, if_true]

/-- first partial segment + whole middle segments + last partial segment -/
theorem pathLength_decomp (lens : List S) (seg : ℕ → S → S → S) (T0 T1 : S)
    (i0 i1 : ℕ) (t0 t1 : S) (hlen : 2 ≤ lens.length) (hT : ¬(T0 = 0 ∧ T1 = 1))
    (h0 : T2t (calcLengths lens).2 T0 = some (i0, t0))
    (h1 : T2t (calcLengths lens).2 T1 = some (i1, t1)) (hi : i0 < i1) :
    pathLength lens seg T0 T1 =
      .value (seg i0 t0 1 + ((List.range (i1 - (i0 + 1))).map (fun j => seg (i0 + 1 + j) 0 1)).sum
        + seg i1 0 t1) := by
  rw [pathLength_unfold, if_neg hT, if_neg (by omega), if_neg (by omega), h0, h1]
  have hne : i0 ≠ i1 := by omega
  simp only [hne, if_false, midSum_eq_sum]

end path

end SvgVerif.Props.C06SegLen
