import SvgVerif.Model.PathOps
import SvgVerif.Model.Length
import SvgVerif.Props.C05
import Mathlib.Algebra.Order.Field.Basic
import Mathlib.Tactic.Linarith
import Mathlib.Tactic.Ring
/-! # C09 — `Path.cropped(T0, T1)` has length `Path.length(T0, T1)` (interior crops)

For `0 < T0 < T1 < 1`, non-negative length fractions summing to 1 and the exact reading of the two `np.isclose`
snaps: the pieces assembled by the model of `Path.cropped` are, segment by segment, the decomposition that the model
of `Path.length(T0, T1)` adds up — `cropped_interior_length`.  With the segment-level facts of C09 (a cropped segment
traces `point(a + u(b − a))`, so its length is `length(a, b)`) and C06 (a path's length is the sum of its segments'),
`cropped(T0, T1).length() = length(T0, T1)`.  The only arithmetic fact used about segment lengths is
`seg.length(1, 1) = 0` (a crop that starts exactly at the end of a segment starts at the next one). -/
namespace SvgVerif.Props.C09
set_option linter.unusedVariables false
set_option linter.unusedSimpArgs false
set_option linter.unusedSectionVars false
open SvgVerif.Model SvgVerif.Model.PathOps SvgVerif.Model.PathParam SvgVerif.Model.Length

variable {K : Type} [Field K] [LinearOrder K] [IsStrictOrderedRing K]

/-- sum of the lengths of the pieces (Python `sum`: left fold from 0) -/
def pieceSum (seg : ℕ → K → K → K) (ps : List (Piece K)) : K := psum (ps.map fun p => seg p.idx p.a p.b)

/-- what `Path.length(T0, T1)` adds up once `T2t` has located the two ends -/
def lengthSpec (seg : ℕ → K → K → K) (i0 : ℕ) (t0 : K) (i1 : ℕ) (t1 : K) : K :=
  if i0 = i1 then seg i0 t0 t1 else seg i0 t0 1 + midSum seg (i0 + 1) (i1 - (i0 + 1)) + seg i1 0 t1

theorem sabs_le_zero (x : K) : (sabs x ≤ 0) ↔ x = 0 := by
  unfold sabs
  constructor
  · intro h
    split_ifs at h with hneg
    · linarith
    · exact le_antisymm h (not_lt.mp hneg)
  · rintro rfl; simp

theorem close0_exact (t : K) : close0 (0 : K) t = decide (t = 0) := by
  unfold close0
  simp only [sabs_le_zero]

theorem close1_exact (t : K) : close1 (0 : K) 0 t = decide (t = 1) := by
  unfold close1
  simp only [add_zero, sabs_le_zero, sub_eq_zero]

/-- the pieces an interior crop must consist of, given where `T2t` puts its two ends -/
def expectedPieces (n k0 : ℕ) (t0 : K) (k1 : ℕ) (t1 : K) : List (Piece K) :=
  let i0 := if t0 = 1 then (k0 + 1) % n else k0
  let s0 := if t0 = 1 then (0 : K) else t0
  if i0 = k1 then [⟨i0, s0, t1⟩]
  else [⟨i0, s0, 1⟩] ++ wholes (List.range' (i0 + 1) (k1 - (i0 + 1))) ++ [⟨k1, 0, t1⟩]

theorem psum_append_single (xs : List K) (x : K) : psum (xs ++ [x]) = psum xs + x := by
  unfold psum; simp [List.foldl_append]

theorem psum_cons (x : K) (xs : List K) : psum (x :: xs) = x + psum xs := by
  rw [C05.psum_eq_sum, C05.psum_eq_sum]; simp

theorem psum_append (xs ys : List K) : psum (xs ++ ys) = psum xs + psum ys := by
  rw [C05.psum_eq_sum, C05.psum_eq_sum, C05.psum_eq_sum]; simp

theorem wholes_sum (seg : ℕ → K → K → K) (i n : ℕ) :
    psum ((wholes (S := K) (List.range' i n)).map fun p => seg p.idx p.a p.b) = midSum seg i n := by
  unfold midSum wholes
  rw [List.map_map, List.range'_eq_map_range, List.map_map]
  rfl

/-- **The pieces of an interior crop add up to `Path.length(T0, T1)`.** -/
theorem cropped_interior_length (fr : List K) (labels : List ℕ) (closed : Option Bool)
    (hnn : ∀ l ∈ fr, 0 ≤ l) (hsum : fr.sum = 1) (T0 T1 : K) (h0 : 0 < T0) (h01 : T0 < T1) (h1 : T1 < 1)
    (seg : ℕ → K → K → K) (hzero : ∀ k, seg k 1 1 = 0) :
    ∃ pieces i0 t0 i1 t1, croppedCore (0 : K) 0 fr labels closed T0 T1 = .ok pieces ∧
      T2t fr T0 = some (i0, t0) ∧ T2t fr T1 = some (i1, t1) ∧
      pieceSum seg pieces = lengthSpec seg i0 t0 i1 t1 := by
  obtain ⟨k0, t0, l0, e0, g0, lp0, tp0, tl0, lo0, hi0, _⟩ := C05.T2t_spec fr T0 hnn hsum h0 (lt_trans h01 h1)
  obtain ⟨k1, t1, l1, e1, g1, lp1, tp1, tl1, lo1, hi1, _⟩ := C05.T2t_spec fr T1 hnn hsum (lt_trans h0 h01) h1
  have hk0 : k0 < fr.length := by
    by_contra hc; rw [List.getElem?_eq_none (by omega)] at g0; simp at g0
  have hk1 : k1 < fr.length := by
    by_contra hc; rw [List.getElem?_eq_none (by omega)] at g1; simp at g1
  have hl0 : fr[k0] = l0 := by rw [List.getElem?_eq_getElem hk0] at g0; simpa using g0
  have hl1 : fr[k1] = l1 := by rw [List.getElem?_eq_getElem hk1] at g1; simpa using g1
  -- the segment of T0 is not after the segment of T1
  have hle : k0 ≤ k1 := by
    by_contra hc
    have := C05.take_sum_mono fr hnn (k1 + 1) k0 (by omega)
    rw [List.sum_take_succ fr k1 hk1, hl1] at this
    linarith
  -- if T0 sits exactly at the end of its segment, T1 is in a later one
  have hsnap : t0 = 1 → k0 < k1 := by
    intro ht
    rcases Nat.lt_or_ge k0 k1 with h | h
    · exact h
    · exfalso
      have hk : k0 = k1 := le_antisymm hle h
      subst hk
      have hll : l0 = l1 := by rw [← hl0, ← hl1]
      -- T0 = cum + l0·1 ≥ T1
      have eT0 : (fr.take k0).sum + l0 * t0 = T0 := by
        have := C05.T2t_spec fr T0 hnn hsum h0 (lt_trans h01 h1)
        obtain ⟨k, t, l, a, b, c, d, e, f, g, hh⟩ := this
        rw [e0] at a
        simp only [Option.some.injEq, Prod.mk.injEq] at a
        obtain ⟨rfl, rfl⟩ := a
        rw [g0] at b
        simp only [Option.some.injEq] at b
        subst b
        unfold t2T at hh
        simp only [g0, C05.psum_eq_sum, Option.some.injEq] at hh
        linarith
      rw [ht] at eT0
      linarith
  have ht1ne : t1 ≠ 0 := tp1.ne'
  refine ⟨expectedPieces fr.length k0 t0 k1 t1, k0, t0, k1, t1, ?_, e0, e1, ?_⟩
  · -- compute croppedCore
    unfold croppedCore expectedPieces
    by_cases hs : t0 = 1
    · have hk := hsnap hs
      have hmod : (k0 + 1) % fr.length = k0 + 1 := Nat.mod_eq_of_lt (by omega)
      simp only [h1.ne, (lt_trans h0 h01).ne', h0.ne', e0, e1, close0_exact, close1_exact, ht1ne, decide_false,
        Bool.false_eq_true, if_false, bind, Except.bind, pure, Except.pure, h01, true_and, ne_eq, not_false_eq_true,
        if_true, not_lt.mpr h01.le, hs, decide_true, hmod]
      split <;> rfl
    · simp only [h1.ne, (lt_trans h0 h01).ne', h0.ne', e0, e1, close0_exact, close1_exact, ht1ne, decide_false,
        Bool.false_eq_true, if_false, bind, Except.bind, pure, Except.pure, h01, true_and, ne_eq, not_false_eq_true,
        if_true, not_lt.mpr h01.le, hs]
      split <;> rfl
  · -- add up
    unfold expectedPieces
    by_cases hs : t0 = 1
    · have hk := hsnap hs
      have hmod : (k0 + 1) % fr.length = k0 + 1 := Nat.mod_eq_of_lt (by omega)
      have hi0 : (if t0 = 1 then (k0 + 1) % fr.length else k0) = k0 + 1 := by rw [if_pos hs, hmod]
      have hs0 : (if t0 = 1 then (0 : K) else t0) = 0 := if_pos hs
      simp only [hi0, hs0]
      have hne : k0 ≠ k1 := by omega
      unfold lengthSpec
      rw [if_neg hne, hs, hzero]
      by_cases hadj : k0 + 1 = k1
      · subst hadj
        rw [if_pos rfl]
        simp only [pieceSum, List.map_cons, List.map_nil, psum_cons, midSum, Nat.sub_self, List.range_zero]
        simp [psum]
      · rw [if_neg hadj]
        simp only [pieceSum, List.map_append, List.map_cons, List.map_nil, psum_append, psum_cons, wholes_sum]
        have hm : midSum seg (k0 + 1) (k1 - (k0 + 1)) = seg (k0 + 1) 0 1 + midSum seg (k0 + 1 + 1) (k1 - (k0 + 1 + 1)) := by
          have hn : k1 - (k0 + 1) = (k1 - (k0 + 1 + 1)) + 1 := by omega
          unfold midSum
          rw [hn, List.range_succ_eq_map, List.map_cons, psum_cons, List.map_map]
          simp only [Nat.add_zero, Function.comp]
          congr 2
          apply List.map_congr_left
          intro j _
          show seg (k0 + 1 + (j + 1)) 0 1 = seg (k0 + 1 + 1 + j) 0 1
          rw [show k0 + 1 + (j + 1) = k0 + 1 + 1 + j by ring]
        rw [hm]
        have hp : psum ([] : List K) = 0 := rfl
        rw [hp]
        ring
    · have hi0 : (if t0 = 1 then (k0 + 1) % fr.length else k0) = k0 := if_neg hs
      have hs0 : (if t0 = 1 then (0 : K) else t0) = t0 := if_neg hs
      simp only [hi0, hs0]
      unfold lengthSpec
      by_cases hk : k0 = k1
      · subst hk
        rw [if_pos rfl, if_pos rfl]
        simp only [pieceSum, List.map_cons, List.map_nil, psum_cons]
        have hp : psum ([] : List K) = 0 := rfl
        rw [hp]; ring
      · rw [if_neg hk, if_neg hk]
        simp only [pieceSum, List.map_append, List.map_cons, List.map_nil, psum_append, psum_cons, wholes_sum]
        have hp : psum ([] : List K) = 0 := rfl
        rw [hp]; ring

/-- `Path.length(T0, T1)` (the C06 model) IS `lengthSpec` at the two locations `T2t` returns, for a path of at least
two segments and a proper sub-interval -/
theorem pathLength_eq_lengthSpec (lens : List K) (seg : ℕ → K → K → K) (T0 T1 : K) (i0 i1 : ℕ) (t0 t1 : K)
    (hn : 2 ≤ lens.length) (hT : ¬ (T0 = 0 ∧ T1 = 1))
    (e0 : T2t (calcLengths lens).2 T0 = some (i0, t0)) (e1 : T2t (calcLengths lens).2 T1 = some (i1, t1)) :
    pathLength lens seg T0 T1 = .value (lengthSpec seg i0 t0 i1 t1) := by
  unfold pathLength lengthSpec
  have h0 : lens.length ≠ 0 := by omega
  have h1 : lens.length ≠ 1 := by omega
  simp only [hT, if_false, h0, h1, e0, e1]
  split <;> rfl

end SvgVerif.Props.C09
