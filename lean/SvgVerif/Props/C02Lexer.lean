import SvgVerif.Model.Lexer
/-! # C01 / C02 — the tokenizer reads back what `Path.d()` writes (and its usual respellings)

`tokenize_rendered`: let a string be built from a token list by writing each command letter and each numeral in
turn, with any number of separators (spaces, commas) anywhere between tokens — in particular exactly as `Path.d()`
lays out its result (`'M {},{}'.format(...)` pieces joined by spaces) — where every numeral has the shape of
Python's `repr(float)` / `str(int)`: `-? digits (. digits)? (e [+-]? digits)?`, and a numeral is followed by a
separator, a command letter or the end of the string.  Then the model of `Path._tokenize_path`
(`COMMAND_RE.split` + `FLOAT_RE.findall`) returns exactly that token list: no numeral is split, merged with its
neighbour, or has a sign or exponent detached.  Core Lean only (no Mathlib), no axioms beyond `propext`.

Not covered (tied by the exhaustive correspondence only): sign-as-separator (`1-2`), dot-as-separator
(`1.5.5`), and arc flags without separators (finding F5). -/
namespace SvgVerif.Props.C02Lexer
open SvgVerif.Model.Lexer

def isSep (c : Char) : Bool := c == ' ' || c == ','

/-- all characters are decimal digits -/
def Digits (s : List Char) : Prop := ∀ c ∈ s, isDigit c = true

/-- the character does not continue a numeral: not a digit, `.`, `e`, `E` -/
def Stops (c : Char) : Prop := isDigit c = false ∧ c ≠ '.' ∧ c ≠ 'e' ∧ c ≠ 'E'

/-- the rest of the input cannot extend a numeral that ends here -/
def Boundary (s : List Char) : Prop := s = [] ∨ ∃ c r, s = c :: r ∧ Stops c

theorem takeDigits_append (ds rest : List Char) (hd : Digits ds)
    (hr : rest = [] ∨ ∃ c r, rest = c :: r ∧ isDigit c = false) : takeDigits (ds ++ rest) = (ds, rest) := by
  induction ds with
  | nil =>
    rcases hr with rfl | ⟨c, r, rfl, hc⟩
    · rfl
    · simp [takeDigits, hc]
  | cons d ds ih =>
    have hdd : isDigit d = true := hd d (by simp)
    have := ih (fun c hc => hd c (by simp [hc]))
    simp only [List.cons_append, takeDigits, hdd, if_true, this]

/-- the shape of `repr(float)` / `str(int)` -/
structure PyNum (n : List Char) : Prop where
  ex : ∃ sg d1 fr ex : List Char, n = sg ++ d1 ++ fr ++ ex ∧ (sg = [] ∨ sg = ['-']) ∧ Digits d1 ∧ d1 ≠ [] ∧
    (fr = [] ∨ ∃ d2, fr = '.' :: d2 ∧ Digits d2 ∧ d2 ≠ []) ∧
    (ex = [] ∨ ∃ es ed, ex = 'e' :: (es ++ ed) ∧ (es = [] ∨ es = ['-'] ∨ es = ['+']) ∧ Digits ed ∧ ed ≠ [])

theorem stops_of_sep (c : Char) (h : isSep c = true) : Stops c := by
  unfold isSep at h
  simp only [Bool.or_eq_true, beq_iff_eq] at h
  rcases h with rfl | rfl <;> exact ⟨by decide, by decide, by decide, by decide⟩

theorem stops_of_cmd (c : Char) (h : isCmd c = true) : Stops c := by
  unfold isCmd at h
  simp only [List.contains_eq_mem, decide_eq_true_eq] at h
  have : c ∈ ['M', 'm', 'Z', 'z', 'L', 'l', 'H', 'h', 'V', 'v', 'C', 'c', 'S', 's', 'Q', 'q', 'T', 't', 'A', 'a'] := h
  simp only [List.mem_cons, List.not_mem_nil, or_false] at this
  rcases this with rfl | rfl | rfl | rfl | rfl | rfl | rfl | rfl | rfl | rfl | rfl | rfl | rfl | rfl | rfl | rfl | rfl |
    rfl | rfl | rfl <;> exact ⟨by decide, by decide, by decide, by decide⟩

theorem digit_not_sign (c : Char) (h : isDigit c = true) : isSign c = false := by
  unfold isDigit at h; unfold isSign
  simp only [Bool.and_eq_true, decide_eq_true_eq] at h
  have h1 : c ≠ '-' := by rintro rfl; exact absurd h.1 (by decide)
  have h2 : c ≠ '+' := by rintro rfl; exact absurd h.1 (by decide)
  simp [h1, h2]

theorem digit_ne (c : Char) (h : isDigit c = true) : c ≠ '.' ∧ c ≠ 'e' ∧ c ≠ 'E' := by
  unfold isDigit at h
  simp only [Bool.and_eq_true, decide_eq_true_eq] at h
  refine ⟨?_, ?_, ?_⟩ <;> (rintro rfl; first | exact absurd h.1 (by decide) | exact absurd h.2 (by decide))

theorem stripSign_digit (a : Char) (r : List Char) (ha : isDigit a = true) : stripSign (a :: r) = ([], a :: r) := by
  simp [stripSign, digit_not_sign a ha]

/-- the exponent part and what follows, scanned after a complete mantissa `pre` -/
theorem exponent_scan (pre ex rest : List Char) (hb : Boundary rest)
    (hex : ex = [] ∨ ∃ es ed, ex = 'e' :: (es ++ ed) ∧ (es = [] ∨ es = ['-'] ∨ es = ['+']) ∧ Digits ed ∧ ed ≠ []) :
    exponent pre (ex ++ rest) = (pre ++ ex, rest) := by
  have hbd : rest = [] ∨ ∃ c r, rest = c :: r ∧ isDigit c = false := by
    rcases hb with h | ⟨c, r, h, hs⟩
    · exact Or.inl h
    · exact Or.inr ⟨c, r, h, hs.1⟩
  rcases hex with rfl | ⟨es, ed, rfl, hes, hed, hne⟩
  · simp only [List.nil_append, List.append_nil]
    rcases hb with rfl | ⟨c, r, rfl, hs⟩
    · rfl
    · have h1 : (c == 'e' || c == 'E') = false := by simp [hs.2.2.1, hs.2.2.2]
      simp only [exponent, h1, Bool.false_eq_true, if_false]
  · obtain ⟨d, ds, rfl⟩ := List.exists_cons_of_ne_nil hne
    have hd : isDigit d = true := hed d (by simp)
    have htd := takeDigits_append (d :: ds) rest hed hbd
    rcases hes with rfl | rfl | rfl
    · simp only [List.nil_append, List.cons_append, exponent, beq_self_eq_true, Bool.true_or, if_true,
        stripSign_digit d _ hd]
      simp only [List.cons_append] at htd
      simp [htd]
    · have hs : stripSign ('-' :: ((d :: ds) ++ rest)) = (['-'], (d :: ds) ++ rest) := by
        simp [stripSign, isSign]
      simp only [List.cons_append, List.nil_append] at hs ⊢
      simp only [exponent, beq_self_eq_true, Bool.true_or, if_true, hs]
      simp only [List.cons_append] at htd
      simp [htd]
    · have hs : stripSign ('+' :: ((d :: ds) ++ rest)) = (['+'], (d :: ds) ++ rest) := by
        simp [stripSign, isSign]
      simp only [List.cons_append, List.nil_append] at hs ⊢
      simp only [exponent, beq_self_eq_true, Bool.true_or, if_true, hs]
      simp only [List.cons_append] at htd
      simp [htd]

/-- the mantissa of a numeral, followed by its exponent part and a boundary -/
theorem mantissa_scan (d1 fr tail : List Char) (hd1 : Digits d1) (hne1 : d1 ≠ [])
    (hfr : fr = [] ∨ ∃ d2, fr = '.' :: d2 ∧ Digits d2 ∧ d2 ≠ [])
    (htail : tail = [] ∨ ∃ c r, tail = c :: r ∧ isDigit c = false ∧ c ≠ '.') :
    mantissa (d1 ++ fr ++ tail) = some (d1 ++ fr, tail) := by
  have htd : tail = [] ∨ ∃ c r, tail = c :: r ∧ isDigit c = false := by
    rcases htail with h | ⟨c, r, h, h1, _⟩
    · exact Or.inl h
    · exact Or.inr ⟨c, r, h, h1⟩
  rcases hfr with rfl | ⟨d2, rfl, hd2, hne2⟩
  · simp only [List.append_nil]
    unfold mantissa
    rw [takeDigits_append d1 tail hd1 htd]
    simp only
    rcases htail with rfl | ⟨c, r, rfl, _, hdot⟩
    · simp [hne1]
    · split
      · rename_i r2 heq
        simp only [List.cons.injEq] at heq
        exact absurd heq.1 hdot
      · simp [hne1]
  · have h1 : takeDigits (d1 ++ ('.' :: d2 ++ tail)) = (d1, '.' :: d2 ++ tail) :=
      takeDigits_append d1 _ hd1 (Or.inr ⟨'.', d2 ++ tail, rfl, by decide⟩)
    have h2 := takeDigits_append d2 tail hd2 htd
    unfold mantissa
    simp only [List.append_assoc, List.cons_append] at h1 ⊢
    rw [h1]
    simp only [h2, ne_eq, hne2, not_false_eq_true, if_true]

/-- `FLOAT_RE` matched at a numeral of `repr` shape followed by a boundary matches exactly the numeral -/
theorem matchFloat_pynum (n rest : List Char) (hn : PyNum n) (hb : Boundary rest) :
    matchFloat (n ++ rest) = some (n, rest) := by
  obtain ⟨sg, d1, fr, ex, rfl, hsg, hd1, hne1, hfr, hex⟩ := hn.ex
  obtain ⟨a, as, rfl⟩ := List.exists_cons_of_ne_nil hne1
  have ha : isDigit a = true := hd1 a (by simp)
  have htail : (ex ++ rest) = [] ∨ ∃ c r, (ex ++ rest) = c :: r ∧ isDigit c = false ∧ c ≠ '.' := by
    rcases hex with rfl | ⟨es, ed, rfl, _, _, _⟩
    · rcases hb with rfl | ⟨c, r, rfl, hs⟩
      · exact Or.inl rfl
      · exact Or.inr ⟨c, r, rfl, hs.1, hs.2.1⟩
    · exact Or.inr ⟨'e', _, rfl, by decide, by decide⟩
  have hm := mantissa_scan (a :: as) fr (ex ++ rest) hd1 hne1 hfr htail
  have hx := exponent_scan (sg ++ ((a :: as) ++ fr)) ex rest hb hex
  have hstrip : stripSign (sg ++ (a :: as) ++ fr ++ ex ++ rest) = (sg, (a :: as) ++ fr ++ (ex ++ rest)) := by
    rcases hsg with rfl | rfl
    · simp only [List.nil_append, List.cons_append, List.append_assoc]
      exact stripSign_digit a _ ha
    · simp [stripSign, isSign]
  unfold matchFloat
  rw [hstrip]
  simp only [hm, hx]
  simp [List.append_assoc]

/-- a string laid out from a token list: numerals followed by a boundary, separators anywhere -/
inductive Rendered : List RawTok → List Char → Prop
  | nil : Rendered [] []
  | sep (c : Char) (hc : isSep c = true) {ts : List RawTok} {s : List Char} : Rendered ts s → Rendered ts (c :: s)
  | cmd (c : Char) (hc : isCmd c = true) {ts : List RawTok} {s : List Char} :
      Rendered ts s → Rendered (.cmd c :: ts) (c :: s)
  | num (n : List Char) (hn : PyNum n) {ts : List RawTok} {s : List Char} :
      Rendered ts s → (s = [] ∨ ∃ c r, s = c :: r ∧ (isSep c = true ∨ isCmd c = true)) →
      Rendered (.num n :: ts) (n ++ s)

theorem sep_not_cmd (c : Char) (h : isSep c = true) : isCmd c = false := by
  unfold isSep at h
  simp only [Bool.or_eq_true, beq_iff_eq] at h
  rcases h with rfl | rfl <;> decide

theorem matchFloat_sep (c : Char) (r : List Char) (h : isSep c = true) : matchFloat (c :: r) = none := by
  unfold isSep at h
  simp only [Bool.or_eq_true, beq_iff_eq] at h
  rcases h with rfl | rfl
  · have h1 : isSign ' ' = false := by decide
    have h2 : isDigit ' ' = false := by decide
    simp [matchFloat, stripSign, mantissa, h1, takeDigits, h2]
  · have h1 : isSign ',' = false := by decide
    have h2 : isDigit ',' = false := by decide
    simp [matchFloat, stripSign, mantissa, h1, takeDigits, h2]

theorem pynum_ne_nil (n : List Char) (hn : PyNum n) : n ≠ [] := by
  obtain ⟨sg, d1, fr, ex, rfl, _, _, hne1, _, _⟩ := hn.ex
  intro h
  simp only [List.append_eq_nil_iff] at h
  exact hne1 h.1.1.2

theorem pynum_head_not_cmd (n : List Char) (hn : PyNum n) : ∃ c r, n = c :: r ∧ isCmd c = false := by
  obtain ⟨sg, d1, fr, ex, rfl, hsg, hd1, hne1, _, _⟩ := hn.ex
  obtain ⟨a, as, rfl⟩ := List.exists_cons_of_ne_nil hne1
  rcases hsg with rfl | rfl
  · refine ⟨a, as ++ fr ++ ex, by simp, ?_⟩
    have ha : isDigit a = true := hd1 a (by simp)
    unfold isDigit at ha
    simp only [Bool.and_eq_true, decide_eq_true_eq] at ha
    unfold isCmd
    simp only [List.contains_eq_mem, decide_eq_false_iff_not]
    intro hmem
    have : a ∈ ['M', 'm', 'Z', 'z', 'L', 'l', 'H', 'h', 'V', 'v', 'C', 'c', 'S', 's', 'Q', 'q', 'T', 't', 'A', 'a'] := hmem
    simp only [List.mem_cons, List.not_mem_nil, or_false] at this
    rcases this with rfl | rfl | rfl | rfl | rfl | rfl | rfl | rfl | rfl | rfl | rfl | rfl | rfl | rfl | rfl | rfl |
      rfl | rfl | rfl | rfl <;> exact absurd ha.2 (by decide)
  · exact ⟨'-', (a :: as) ++ fr ++ ex, by simp, by decide⟩

/-- **The tokenizer reads back every rendered token list** (any fuel larger than the string). -/
theorem lex_rendered (ts : List RawTok) (s : List Char) (h : Rendered ts s) (n : Nat) (hn : s.length < n) :
    lex n s = ts := by
  induction h generalizing n with
  | nil => cases n <;> rfl
  | sep c hc _ ih =>
    cases n with
    | zero => simp at hn
    | succ n =>
      simp only [List.length_cons] at hn
      simp only [lex, sep_not_cmd c hc, Bool.false_eq_true, if_false, matchFloat_sep c _ hc]
      exact ih n (by omega)
  | cmd c hc _ ih =>
    cases n with
    | zero => simp at hn
    | succ n =>
      simp only [List.length_cons] at hn
      simp only [lex, hc, if_true]
      rw [ih n (by omega)]
  | @num m hm ts s _ hbnd ih =>
    have hb : Boundary s := by
      rcases hbnd with rfl | ⟨c, r, rfl, hc | hc⟩
      · exact Or.inl rfl
      · exact Or.inr ⟨c, r, rfl, stops_of_sep c hc⟩
      · exact Or.inr ⟨c, r, rfl, stops_of_cmd c hc⟩
    obtain ⟨c, r, hcr, hnc⟩ := pynum_head_not_cmd m hm
    cases n with
    | zero => simp at hn
    | succ n =>
      have hmf := matchFloat_pynum m s hm hb
      have hlen : s.length < (m ++ s).length := by
        have := pynum_ne_nil m hm
        have : 0 < m.length := List.length_pos_iff.mpr this
        simp only [List.length_append]; omega
      have hs : s.length < n := by
        simp only [List.length_append] at hn hlen; omega
      subst hcr
      simp only [List.cons_append] at hmf hlen ⊢
      simp only [lex, hnc, Bool.false_eq_true, if_false, hmf, hlen, if_true]
      rw [ih n hs]

/-- **`_tokenize_path` inverts the layout of `Path.d()`** and of its respellings with extra separators. -/
theorem tokenize_rendered (ts : List RawTok) (s : List Char) (h : Rendered ts s) : tokenize s = ts :=
  lex_rendered ts s h _ (Nat.lt_succ_self _)

/-- non-vacuity: `"M 1.5,-2e+16 L.."`-style input — here `M 1.5,-2e-7` -/
example : tokenize "M 1.5,-2e-7".toList = [.cmd 'M', .num "1.5".toList, .num "-2e-7".toList] := by decide

end SvgVerif.Props.C02Lexer
