import SvgVerif.Model.Lexer
/-! # C01 / C02 — the tokenizer reads back every legal spelling of a token list

`tokenize_rendered`: let a string be built from a token list by writing each command letter and each number in
turn, where
* every number has the shape of the SVG grammar — `sign? (digits | digits "." digits? | "." digits) exponent?` with
  `sign ∈ {-, +}` and `exponent = (e|E) sign? digits` — which includes everything Python's `repr(float)` /
  `str(int)` produce, numbers with a leading dot (`.5`), with a trailing dot (`1.`, `1.e2`) and with `E` / `+`;
* any number of separators (spaces, commas) may stand between tokens, in particular exactly as `Path.d()` lays
  out its result;
* a number may also be followed directly by a command letter, by the SIGN of the next number
  (sign-as-separator, `1-2`), or — when it has a fractional part or an exponent itself — by the leading DOT of
  the next number (dot-as-separator, `1.5.5`, `1e2.5`).
Then the model of `Path._tokenize_path` (`COMMAND_RE.split` + `FLOAT_RE.findall`) returns exactly that token list:
no number is split, merged with its neighbour, or has a sign or exponent detached.  Core Lean only (no Mathlib).

Not covered (a known finding, F5): arc flags written without separators. -/
namespace SvgVerif.Props.C02Lexer
open SvgVerif.Model.Lexer

def isSep (c : Char) : Bool := c == ' ' || c == ','

/-- all characters are decimal digits -/
def Digits (s : List Char) : Prop := ∀ c ∈ s, isDigit c = true

/-- the character does not continue a numeral: not a digit, `.`, `e`, `E` -/
def Stops (c : Char) : Prop := isDigit c = false ∧ c ≠ '.' ∧ c ≠ 'e' ∧ c ≠ 'E'

theorem takeDigits_append (ds rest : List Char) (hd : Digits ds)
    (hr : rest = [] ∨ ∃ c r, rest = c :: r ∧ isDigit c = false) : takeDigits (ds ++ rest) = (ds, rest) := by
  induction ds with
  | nil =>
    rcases hr with rfl | ⟨c, r, rfl, hc⟩
    · rfl
    · simp [takeDigits, hc]
  | cons d ds ih =>
    have hdd : isDigit d = true := hd d (by simp)
    have := ih (fun c hc => hd c (by simp [hc]))
    simp only [List.cons_append, takeDigits, hdd, if_true, this]

theorem stops_of_sep (c : Char) (h : isSep c = true) : Stops c := by
  unfold isSep at h
  simp only [Bool.or_eq_true, beq_iff_eq] at h
  rcases h with rfl | rfl <;> exact ⟨by decide, by decide, by decide, by decide⟩

theorem stops_of_cmd (c : Char) (h : isCmd c = true) : Stops c := by
  unfold isCmd at h
  simp only [List.contains_eq_mem, decide_eq_true_eq] at h
  have : c ∈ ['M', 'm', 'Z', 'z', 'L', 'l', 'H', 'h', 'V', 'v', 'C', 'c', 'S', 's', 'Q', 'q', 'T', 't', 'A', 'a'] := h
  simp only [List.mem_cons, List.not_mem_nil, or_false] at this
  rcases this with rfl | rfl | rfl | rfl | rfl | rfl | rfl | rfl | rfl | rfl | rfl | rfl | rfl | rfl | rfl | rfl | rfl |
    rfl | rfl | rfl <;> exact ⟨by decide, by decide, by decide, by decide⟩

theorem digit_not_sign (c : Char) (h : isDigit c = true) : isSign c = false := by
  unfold isDigit at h; unfold isSign
  simp only [Bool.and_eq_true, decide_eq_true_eq] at h
  have h1 : c ≠ '-' := by rintro rfl; exact absurd h.1 (by decide)
  have h2 : c ≠ '+' := by rintro rfl; exact absurd h.1 (by decide)
  simp [h1, h2]

theorem digit_ne (c : Char) (h : isDigit c = true) : c ≠ '.' ∧ c ≠ 'e' ∧ c ≠ 'E' := by
  unfold isDigit at h
  simp only [Bool.and_eq_true, decide_eq_true_eq] at h
  refine ⟨?_, ?_, ?_⟩ <;> (rintro rfl; first | exact absurd h.1 (by decide) | exact absurd h.2 (by decide))

theorem stripSign_digit (a : Char) (r : List Char) (ha : isDigit a = true) : stripSign (a :: r) = ([], a :: r) := by
  simp [stripSign, digit_not_sign a ha]

theorem stops_of_sign (c : Char) (h : isSign c = true) : Stops c := by
  unfold isSign at h
  simp only [Bool.or_eq_true, beq_iff_eq] at h
  rcases h with rfl | rfl <;> exact ⟨by decide, by decide, by decide, by decide⟩

/-- the four parts of a number: sign, integer digits, fraction (with its dot), exponent -/
structure NumParts where
  sg : List Char
  d1 : List Char
  fr : List Char
  ex : List Char

def NumParts.text (p : NumParts) : List Char := p.sg ++ p.d1 ++ p.fr ++ p.ex

/-- the number grammar of SVG path data -/
structure SvgNum (p : NumParts) : Prop where
  hsg : p.sg = [] ∨ p.sg = ['-'] ∨ p.sg = ['+']
  hd1 : Digits p.d1
  hfr : p.fr = [] ∨ ∃ d2, p.fr = '.' :: d2 ∧ Digits d2
  hne : p.d1 ≠ [] ∨ ∃ d2, p.fr = '.' :: d2 ∧ d2 ≠ []
  hex : p.ex = [] ∨ ∃ e es ed, (e = 'e' ∨ e = 'E') ∧ p.ex = e :: (es ++ ed) ∧
    (es = [] ∨ es = ['-'] ∨ es = ['+']) ∧ Digits ed ∧ ed ≠ []

/-- what may directly follow a number: the end, or a character that is no digit and no `e`/`E`, and that is a
dot only if the number itself has a fraction or an exponent (otherwise the dot would be read as its own) -/
def Follow (p : NumParts) (rest : List Char) : Prop :=
  rest = [] ∨ ∃ c r, rest = c :: r ∧ isDigit c = false ∧ c ≠ 'e' ∧ c ≠ 'E' ∧ (c = '.' → p.fr ≠ [] ∨ p.ex ≠ [])

/-- the exponent part and what follows, scanned after a complete mantissa `pre` -/
theorem exponent_scan (pre ex rest : List Char)
    (hb : rest = [] ∨ ∃ c r, rest = c :: r ∧ isDigit c = false ∧ c ≠ 'e' ∧ c ≠ 'E')
    (hex : ex = [] ∨ ∃ e es ed, (e = 'e' ∨ e = 'E') ∧ ex = e :: (es ++ ed) ∧ (es = [] ∨ es = ['-'] ∨ es = ['+']) ∧
      Digits ed ∧ ed ≠ []) :
    exponent pre (ex ++ rest) = (pre ++ ex, rest) := by
  have hbd : rest = [] ∨ ∃ c r, rest = c :: r ∧ isDigit c = false := by
    rcases hb with h | ⟨c, r, h, hs, _⟩
    · exact Or.inl h
    · exact Or.inr ⟨c, r, h, hs⟩
  rcases hex with rfl | ⟨e, es, ed, he, rfl, hes, hed, hne⟩
  · simp only [List.nil_append, List.append_nil]
    rcases hb with rfl | ⟨c, r, rfl, _, h1, h2⟩
    · rfl
    · have h1 : (c == 'e' || c == 'E') = false := by simp [h1, h2]
      simp only [exponent, h1, Bool.false_eq_true, if_false]
  · obtain ⟨d, ds, rfl⟩ := List.exists_cons_of_ne_nil hne
    have hd : isDigit d = true := hed d (by simp)
    have htd := takeDigits_append (d :: ds) rest hed hbd
    have hee : (e == 'e' || e == 'E') = true := by rcases he with rfl | rfl <;> decide
    rcases hes with rfl | rfl | rfl
    · simp only [List.nil_append, List.cons_append, exponent, hee, if_true, stripSign_digit d _ hd]
      simp only [List.cons_append] at htd
      simp [htd]
    · have hs : stripSign ('-' :: ((d :: ds) ++ rest)) = (['-'], (d :: ds) ++ rest) := by
        simp [stripSign, isSign]
      simp only [List.cons_append, List.nil_append] at hs ⊢
      simp only [exponent, hee, if_true, hs]
      simp only [List.cons_append] at htd
      simp [htd]
    · have hs : stripSign ('+' :: ((d :: ds) ++ rest)) = (['+'], (d :: ds) ++ rest) := by
        simp [stripSign, isSign]
      simp only [List.cons_append, List.nil_append] at hs ⊢
      simp only [exponent, hee, if_true, hs]
      simp only [List.cons_append] at htd
      simp [htd]

/-- the mantissa of a number, followed by `tail` (its exponent part and whatever comes after) -/
theorem mantissa_scan (d1 fr tail : List Char) (hd1 : Digits d1)
    (hfr : fr = [] ∨ ∃ d2, fr = '.' :: d2 ∧ Digits d2)
    (hne : d1 ≠ [] ∨ ∃ d2, fr = '.' :: d2 ∧ d2 ≠ [])
    (htail : tail = [] ∨ ∃ c r, tail = c :: r ∧ isDigit c = false ∧ (c = '.' → fr ≠ [])) :
    mantissa (d1 ++ fr ++ tail) = some (d1 ++ fr, tail) := by
  have htd : tail = [] ∨ ∃ c r, tail = c :: r ∧ isDigit c = false := by
    rcases htail with h | ⟨c, r, h, h1, _⟩
    · exact Or.inl h
    · exact Or.inr ⟨c, r, h, h1⟩
  rcases hfr with rfl | ⟨d2, rfl, hd2⟩
  · -- no fraction: d1 is non-empty and the tail does not start with a dot
    have hne1 : d1 ≠ [] := by
      rcases hne with h | ⟨d2, h, _⟩
      · exact h
      · simp at h
    simp only [List.append_nil]
    unfold mantissa
    rw [takeDigits_append d1 tail hd1 htd]
    simp only [ne_eq, hne1, not_false_eq_true, if_true]
    rcases htail with rfl | ⟨c, r, rfl, _, hdot⟩
    · rfl
    · split
      · rename_i r2 heq
        simp only [List.cons.injEq] at heq
        exact absurd rfl (hdot heq.1)
      · rfl
  · have h1 : takeDigits (d1 ++ ('.' :: d2 ++ tail)) = (d1, '.' :: d2 ++ tail) :=
      takeDigits_append d1 _ hd1 (Or.inr ⟨'.', d2 ++ tail, rfl, by decide⟩)
    have h2 := takeDigits_append d2 tail hd2 htd
    unfold mantissa
    simp only [List.append_assoc, List.cons_append] at h1 ⊢
    rw [h1]
    by_cases hd1e : d1 = []
    · have hne2 : d2 ≠ [] := by
        rcases hne with h | ⟨d2', h, h'⟩
        · exact absurd hd1e h
        · simp only [List.cons.injEq, true_and] at h; subst h; exact h'
      subst hd1e
      simp only [ne_eq, not_true_eq_false, if_false, h2, hne2, not_false_eq_true, if_true, List.nil_append]
    · simp only [ne_eq, hd1e, not_false_eq_true, if_true, h2]

theorem head_of_num (p : NumParts) (hp : SvgNum p) (rest : List Char) :
    ∃ c r, p.text ++ rest = c :: r ∧ isCmd c = false ∧
      (p.sg = [] → isSign c = false ∧ p.d1 ++ p.fr ++ (p.ex ++ rest) = c :: r) := by
  have hdig : ∀ a, isDigit a = true → isCmd a = false := by
    intro a ha
    unfold isDigit at ha
    simp only [Bool.and_eq_true, decide_eq_true_eq] at ha
    unfold isCmd
    simp only [List.contains_eq_mem, decide_eq_false_iff_not]
    intro hmem
    have : a ∈ ['M', 'm', 'Z', 'z', 'L', 'l', 'H', 'h', 'V', 'v', 'C', 'c', 'S', 's', 'Q', 'q', 'T', 't', 'A', 'a'] := hmem
    simp only [List.mem_cons, List.not_mem_nil, or_false] at this
    rcases this with rfl | rfl | rfl | rfl | rfl | rfl | rfl | rfl | rfl | rfl | rfl | rfl | rfl | rfl | rfl | rfl |
      rfl | rfl | rfl | rfl <;> exact absurd ha.2 (by decide)
  have hbody : ∃ c r, p.d1 ++ p.fr ++ (p.ex ++ rest) = c :: r ∧ isCmd c = false ∧ isSign c = false := by
    rcases hp.hne with h | ⟨d2, h, _⟩
    · obtain ⟨a, as, e⟩ := List.exists_cons_of_ne_nil h
      have ha : isDigit a = true := hp.hd1 a (by rw [e]; simp)
      exact ⟨a, as ++ p.fr ++ (p.ex ++ rest), by rw [e]; simp, hdig a ha, digit_not_sign a ha⟩
    · by_cases hd : p.d1 = []
      · exact ⟨'.', d2 ++ (p.ex ++ rest), by rw [hd, h]; simp, by decide, by decide⟩
      · obtain ⟨a, as, e⟩ := List.exists_cons_of_ne_nil hd
        have ha : isDigit a = true := hp.hd1 a (by rw [e]; simp)
        exact ⟨a, as ++ p.fr ++ (p.ex ++ rest), by rw [e]; simp, hdig a ha, digit_not_sign a ha⟩
  obtain ⟨c, r, e, hc, hs⟩ := hbody
  rcases hp.hsg with h | h | h
  · exact ⟨c, r, by simp [NumParts.text, h, ← e, List.append_assoc], hc, fun _ => ⟨hs, e⟩⟩
  · exact ⟨'-', p.d1 ++ p.fr ++ p.ex ++ rest, by simp [NumParts.text, h, List.append_assoc], by decide,
      fun h' => by rw [h] at h'; simp at h'⟩
  · exact ⟨'+', p.d1 ++ p.fr ++ p.ex ++ rest, by simp [NumParts.text, h, List.append_assoc], by decide,
      fun h' => by rw [h] at h'; simp at h'⟩

/-- `FLOAT_RE` matched at a number of the SVG grammar followed by an admissible continuation matches exactly
the number -/
theorem matchFloat_num (p : NumParts) (hp : SvgNum p) (rest : List Char) (hf : Follow p rest) :
    matchFloat (p.text ++ rest) = some (p.text, rest) := by
  have htail : (p.ex ++ rest) = [] ∨ ∃ c r, (p.ex ++ rest) = c :: r ∧ isDigit c = false ∧ (c = '.' → p.fr ≠ []) := by
    rcases hp.hex with h | ⟨e, es, ed, he, h, _, _, _⟩
    · rw [h]
      rcases hf with rfl | ⟨c, r, rfl, h1, _, _, h4⟩
      · exact Or.inl rfl
      · refine Or.inr ⟨c, r, rfl, h1, fun hc => ?_⟩
        rcases h4 hc with h5 | h5
        · exact h5
        · exact absurd h h5
    · refine Or.inr ⟨e, es ++ ed ++ rest, by rw [h]; simp, ?_, ?_⟩
      · rcases he with rfl | rfl <;> decide
      · rcases he with rfl | rfl <;> intro hc <;> exact absurd hc (by decide)
  have hb : rest = [] ∨ ∃ c r, rest = c :: r ∧ isDigit c = false ∧ c ≠ 'e' ∧ c ≠ 'E' := by
    rcases hf with h | ⟨c, r, h, h1, h2, h3, _⟩
    · exact Or.inl h
    · exact Or.inr ⟨c, r, h, h1, h2, h3⟩
  have hm := mantissa_scan p.d1 p.fr (p.ex ++ rest) hp.hd1 hp.hfr hp.hne htail
  have hx := exponent_scan (p.sg ++ (p.d1 ++ p.fr)) p.ex rest hb hp.hex
  have hstrip : stripSign (p.text ++ rest) = (p.sg, p.d1 ++ p.fr ++ (p.ex ++ rest)) := by
    rcases hp.hsg with h | h | h
    · obtain ⟨c, r, e, _, hh⟩ := head_of_num p hp rest
      obtain ⟨hs, e2⟩ := hh h
      have : p.text ++ rest = p.d1 ++ p.fr ++ (p.ex ++ rest) := by simp [NumParts.text, h, List.append_assoc]
      rw [this, e2, h]
      simp [stripSign, hs]
    · simp [NumParts.text, h, stripSign, isSign, List.append_assoc]
    · simp [NumParts.text, h, stripSign, isSign, List.append_assoc]
  unfold matchFloat
  rw [hstrip]
  simp only [hm, hx]
  simp [NumParts.text, List.append_assoc]

/-- a string laid out from a token list: numbers followed by an admissible continuation, separators anywhere -/
inductive Rendered : List RawTok → List Char → Prop
  | nil : Rendered [] []
  | sep (c : Char) (hc : isSep c = true) {ts : List RawTok} {s : List Char} : Rendered ts s → Rendered ts (c :: s)
  | cmd (c : Char) (hc : isCmd c = true) {ts : List RawTok} {s : List Char} :
      Rendered ts s → Rendered (.cmd c :: ts) (c :: s)
  | num (p : NumParts) (hp : SvgNum p) {ts : List RawTok} {s : List Char} :
      Rendered ts s → Follow p s → Rendered (.num p.text :: ts) (p.text ++ s)

theorem sep_not_cmd (c : Char) (h : isSep c = true) : isCmd c = false := by
  unfold isSep at h
  simp only [Bool.or_eq_true, beq_iff_eq] at h
  rcases h with rfl | rfl <;> decide

theorem matchFloat_sep (c : Char) (r : List Char) (h : isSep c = true) : matchFloat (c :: r) = none := by
  unfold isSep at h
  simp only [Bool.or_eq_true, beq_iff_eq] at h
  rcases h with rfl | rfl
  · have h1 : isSign ' ' = false := by decide
    have h2 : isDigit ' ' = false := by decide
    simp [matchFloat, stripSign, mantissa, h1, takeDigits, h2]
  · have h1 : isSign ',' = false := by decide
    have h2 : isDigit ',' = false := by decide
    simp [matchFloat, stripSign, mantissa, h1, takeDigits, h2]

theorem num_ne_nil (p : NumParts) (hp : SvgNum p) : p.text ≠ [] := by
  obtain ⟨c, r, e, _, _⟩ := head_of_num p hp []
  intro h
  rw [List.append_nil] at e
  rw [h] at e; simp at e

/-- **The tokenizer reads back every rendered token list** (any fuel larger than the string). -/
theorem lex_rendered (ts : List RawTok) (s : List Char) (h : Rendered ts s) (n : Nat) (hn : s.length < n) :
    lex n s = ts := by
  induction h generalizing n with
  | nil => cases n <;> rfl
  | sep c hc _ ih =>
    cases n with
    | zero => simp at hn
    | succ n =>
      simp only [List.length_cons] at hn
      simp only [lex, sep_not_cmd c hc, Bool.false_eq_true, if_false, matchFloat_sep c _ hc]
      exact ih n (by omega)
  | cmd c hc _ ih =>
    cases n with
    | zero => simp at hn
    | succ n =>
      simp only [List.length_cons] at hn
      simp only [lex, hc, if_true]
      rw [ih n (by omega)]
  | @num p hp ts s _ hf ih =>
    obtain ⟨c, r, hcr, hnc, _⟩ := head_of_num p hp s
    cases n with
    | zero => simp at hn
    | succ n =>
      have hmf := matchFloat_num p hp s hf
      have hlen : s.length < (p.text ++ s).length := by
        have := num_ne_nil p hp
        have : 0 < p.text.length := List.length_pos_iff.mpr this
        simp only [List.length_append]; omega
      have hs : s.length < n := by
        simp only [List.length_append] at hn hlen; omega
      rw [hcr] at hmf hlen ⊢
      simp only [lex, hnc, Bool.false_eq_true, if_false, hmf, hlen, if_true]
      rw [ih n hs]

/-- **`_tokenize_path` inverts every legal layout of a token list**: the layout of `Path.d()`, extra separators,
sign-as-separator, dot-as-separator, leading and trailing dots, `e`/`E` exponents -/
theorem tokenize_rendered (ts : List RawTok) (s : List Char) (h : Rendered ts s) : tokenize s = ts :=
  lex_rendered ts s h _ (Nat.lt_succ_self _)

/-- the numerals Python writes (`repr(float)`, `str(int)`: `-? digits (. digits)? (e [+-]? digits)?`) are numbers
of the grammar, so the theorem covers what `Path.d()` emits -/
theorem pyNum_svgNum (sg d1 d2 ex : List Char) (hsg : sg = [] ∨ sg = ['-']) (hd1 : Digits d1) (hne : d1 ≠ [])
    (hd2 : Digits d2)
    (hex : ex = [] ∨ ∃ es ed, ex = 'e' :: (es ++ ed) ∧ (es = [] ∨ es = ['-'] ∨ es = ['+']) ∧ Digits ed ∧ ed ≠ []) :
    SvgNum ⟨sg, d1, if d2 = [] then [] else '.' :: d2, ex⟩ ∧ SvgNum ⟨sg, d1, [], ex⟩ := by
  have hs : sg = [] ∨ sg = ['-'] ∨ sg = ['+'] := by rcases hsg with h | h <;> simp [h]
  have he : ex = [] ∨ ∃ e es ed, (e = 'e' ∨ e = 'E') ∧ ex = e :: (es ++ ed) ∧ (es = [] ∨ es = ['-'] ∨ es = ['+']) ∧
      Digits ed ∧ ed ≠ [] := by
    rcases hex with h | ⟨es, ed, h1, h2, h3, h4⟩
    · exact Or.inl h
    · exact Or.inr ⟨'e', es, ed, Or.inl rfl, h1, h2, h3, h4⟩
  refine ⟨⟨hs, hd1, ?_, Or.inl hne, he⟩, ⟨hs, hd1, Or.inl rfl, Or.inl hne, he⟩⟩
  by_cases h : d2 = []
  · simp [h]
  · simp only [h, if_false]; exact Or.inr ⟨d2, rfl, hd2⟩

/-! non-vacuity and pinned behaviour (kernel evaluation of the scanner) -/
example : tokenize "M 1.5,-2e-7".toList = [.cmd 'M', .num "1.5".toList, .num "-2e-7".toList] := by decide
example : tokenize "M1.e2-3.5.5+.5E+1L1.,2".toList =
    [.cmd 'M', .num "1.e2".toList, .num "-3.5".toList, .num ".5".toList, .num "+.5E+1".toList, .cmd 'L', .num "1.".toList,
     .num "2".toList] := by decide

end SvgVerif.Props.C02Lexer
