import SvgVerif.Props.C11Model
import SvgVerif.Props.C12
/-! # C11 / C12 — the oracle contract `EnvSound` is met by de Casteljau halving and control-polygon boxes (cubics)

`reported_close` (C11) and `target_handled` (C12) are stated for arbitrary `halve` / `bbox` oracles under the contract
`EnvSound` ("`halve` restricts to the two halves, `bbox` contains the curve").  Here the contract is PROVED for the
concrete oracles the correspondence check runs the real `bezier_intersections` with — `dcSplit (1/2)` (what
`halve_bezier` computes) and the control-polygon box `hullBox` — on cubics, evaluated by de Casteljau (`dcPoint`).
So the hypotheses of those theorems are satisfiable, and for this environment the distance bound of `reported_close`
holds unconditionally. -/
namespace SvgVerif.Props.C11
set_option linter.unusedVariables false
set_option linter.unusedSimpArgs false
open SvgVerif SvgVerif.Model.Intersect SvgVerif.Model

variable {K : Type} [Field K] [LinearOrder K] [IsStrictOrderedRing K]

/-- a cubic by its four control points -/
structure Cub (K : Type) where
  p0 : K × K
  p1 : K × K
  p2 : K × K
  p3 : K × K

def Cub.toList (c : Cub K) : List (K × K) := [c.p0, c.p1, c.p2, c.p3]

def Cub.ofList : List (K × K) → Cub K
  | [a, b, c, d] => ⟨a, b, c, d⟩
  | _ => ⟨(0, 0), (0, 0), (0, 0), (0, 0)⟩

/-- point of the cubic at parameter `u` (de Casteljau, as `bezier_point` computes in exact arithmetic) -/
def Cub.eval (c : Cub K) (u : K) : K × K := dcPoint u 4 c.toList

/-- the two halves, by the model's `dcSplit` at `1/2` -/
def Cub.halve (c : Cub K) : Cub K × Cub K :=
  let s := dcSplit ((1 : K) / 2) 4 c.toList
  (Cub.ofList s.1, Cub.ofList s.2)

/-- the environment of the correspondence check: de Casteljau halving, control-polygon boxes -/
def cubicEnv {P : Type} (point : K → P) (close : P → P → Bool) (tolDeC : K) : Env (Cub K) K P :=
  { bbox := fun c => hullBox c.toList
    halve := Cub.halve
    ceq := fun _ _ => false
    point := point
    close := close
    tolDeC := tolDeC }

theorem cub_halve_left (c : Cub K) (u : K) : (Cub.halve c).1.eval u = c.eval (u / 2) := by
  obtain ⟨⟨a0, b0⟩, ⟨a1, b1⟩, ⟨a2, b2⟩, ⟨a3, b3⟩⟩ := c
  simp only [Cub.halve, Cub.eval, Cub.toList, Cub.ofList, dcSplit, dcStep, dcPoint, List.getLastD,
    List.nil_append, List.cons_append]
  ext <;> simp only <;> ring

theorem cub_halve_right (c : Cub K) (u : K) : (Cub.halve c).2.eval u = c.eval ((1 + u) / 2) := by
  obtain ⟨⟨a0, b0⟩, ⟨a1, b1⟩, ⟨a2, b2⟩, ⟨a3, b3⟩⟩ := c
  have h : (Cub.halve (⟨(a0, b0), (a1, b1), (a2, b2), (a3, b3)⟩ : Cub K)).2 =
      ⟨((1 - 1 / 2) * ((1 - 1 / 2) * ((1 - 1 / 2) * a0 + 1 / 2 * a1) + 1 / 2 * ((1 - 1 / 2) * a1 + 1 / 2 * a2))
          + 1 / 2 * ((1 - 1 / 2) * ((1 - 1 / 2) * a1 + 1 / 2 * a2) + 1 / 2 * ((1 - 1 / 2) * a2 + 1 / 2 * a3)),
        (1 - 1 / 2) * ((1 - 1 / 2) * ((1 - 1 / 2) * b0 + 1 / 2 * b1) + 1 / 2 * ((1 - 1 / 2) * b1 + 1 / 2 * b2))
          + 1 / 2 * ((1 - 1 / 2) * ((1 - 1 / 2) * b1 + 1 / 2 * b2) + 1 / 2 * ((1 - 1 / 2) * b2 + 1 / 2 * b3))),
       ((1 - 1 / 2) * ((1 - 1 / 2) * a1 + 1 / 2 * a2) + 1 / 2 * ((1 - 1 / 2) * a2 + 1 / 2 * a3),
        (1 - 1 / 2) * ((1 - 1 / 2) * b1 + 1 / 2 * b2) + 1 / 2 * ((1 - 1 / 2) * b2 + 1 / 2 * b3)),
       ((1 - 1 / 2) * a2 + 1 / 2 * a3, (1 - 1 / 2) * b2 + 1 / 2 * b3), (a3, b3)⟩ := by
    simp [Cub.halve, Cub.toList, Cub.ofList, dcSplit, dcStep, List.getLastD]
  rw [h]
  simp only [Cub.eval, Cub.toList, dcStep, dcPoint]
  ext <;> simp only <;> ring

/-- **The contract holds**: de Casteljau halving restricts to the halves, and the control-polygon box contains the
cubic on `[0, 1]` (convex-hull property, `C12.dcPoint_inBox`). -/
theorem cubicEnv_sound {P : Type} (point : K → P) (close : P → P → Bool) (tolDeC : K) :
    EnvSound (cubicEnv point close tolDeC) Cub.eval where
  halve_left := cub_halve_left
  halve_right := cub_halve_right
  bbox_contains := by
    intro c u h0 h1
    have := C12.dcPoint_inBox _ _ _ _ u h0 h1 4 c.toList (by simp [Cub.toList]) (by simp [Cub.toList])
      (C12.inBox_hull c.toList)
    simp only [cubicEnv, hullBox, Cub.toList] at this ⊢
    exact this

/-- the distance bound for the concrete environment, with no oracle hypothesis left -/
theorem cubic_reported_close {P : Type} (point : K → P) (close : P → P → Bool) (tolDeC : K) (b1 b2 : Cub K)
    (r : K × K) (h : Reported (cubicEnv point close tolDeC) (2 : K) b1 b2 r) :
    ∃ B1 B2 : Box K, boxArea B1 < tolDeC ∧ boxArea B2 < tolDeC ∧
      |(b1.eval r.1).1 - (b2.eval r.2).1| ≤ (B1.xmax - B1.xmin) + (B2.xmax - B2.xmin) ∧
      |(b1.eval r.1).2 - (b2.eval r.2).2| ≤ (B1.ymax - B1.ymin) + (B2.ymax - B2.ymin) :=
  reported_close (cubicEnv point close tolDeC) Cub.eval (cubicEnv_sound point close tolDeC) b1 b2 r h

end SvgVerif.Props.C11
