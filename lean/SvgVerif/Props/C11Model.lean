import SvgVerif.Model.Intersect
import SvgVerif.Props.C05
import Mathlib.Algebra.Order.Field.Basic
import Mathlib.Tactic.Ring
import Mathlib.Tactic.Linarith
import Mathlib.Tactic.FieldSimp
import Mathlib.Tactic.LinearCombination
/-! # C11 — theorems about the hand-written models of the intersection control logic

* `bezierByLine_sound` — everything `bezier_by_line_intersections` returns is a common point, in range,
  for Beziers of ANY degree, given only that the root oracle returns roots of the imaginary part;
* `biLoop_reported` — every pair reported by `bezier_intersections` is the centre of a pair of dyadic parameter
  cells whose sub-curves (obtained by repeated halving) had overlapping boxes of area `< tol_deC`;
  `reported_close` turns that into the distance bound the algorithm actually guarantees (box widths, not `tol`);
* `pathIntersect_*` — `Path.intersect` returns, for a sub-list of the segment-level hits, `T = t2T(index(seg), t)`,
  and drops a hit only if an EARLIER hit's point is within `tol`. -/
namespace SvgVerif.Props.C11
set_option linter.unusedVariables false
set_option linter.unusedSimpArgs false
set_option linter.unusedSectionVars false
open SvgVerif SvgVerif.Model.Intersect SvgVerif.Model

/-! ## bezier_by_line_intersections, any degree -/
section bezline
variable {K : Type} [Field K] [LinearOrder K] [IsStrictOrderedRing K]

/-- the two components of `toLineFrame`: `(L/|d|²)·(d·(z−l0), d×(z−l0))` -/
theorem toLineFrame_eq (l0 l1 : K × K) (L : K) (z : K × K)
    (hN : (l1.1 - l0.1) * (l1.1 - l0.1) + (l1.2 - l0.2) * (l1.2 - l0.2) ≠ 0) :
    (toLineFrame l0 l1 L z).1 = L / ((l1.1 - l0.1) * (l1.1 - l0.1) + (l1.2 - l0.2) * (l1.2 - l0.2)) *
        ((l1.1 - l0.1) * (z.1 - l0.1) + (l1.2 - l0.2) * (z.2 - l0.2)) ∧
    (toLineFrame l0 l1 L z).2 = L / ((l1.1 - l0.1) * (l1.1 - l0.1) + (l1.2 - l0.2) * (l1.2 - l0.2)) *
        ((l1.1 - l0.1) * (z.2 - l0.2) - (l1.2 - l0.2) * (z.1 - l0.1)) := by
  unfold toLineFrame
  simp only
  obtain ⟨N, hNd⟩ : ∃ N, N = (l1.1 - l0.1) * (l1.1 - l0.1) + (l1.2 - l0.2) * (l1.2 - l0.2) := ⟨_, rfl⟩
  rw [← hNd] at hN ⊢
  constructor <;> (field_simp; ring)

/-- **Soundness of `bezier_by_line_intersections` for every degree.**  `curve` is the Bezier (any function of
`t`), `L = |l1 − l0| > 0`.  If every root the oracle returns makes the imaginary part of the curve in the line's
frame vanish, then every returned `(t, u)` has `t` among the roots, `0 ≤ u ≤ 1`, and `curve t = l0 + u·(l1 − l0)`. -/
theorem bezierByLine_sound (curve : K → K × K) (l0 l1 : K × K) (L : K) (roots : List K)
    (hL : 0 < L) (hLsq : L * L = (l1.1 - l0.1) * (l1.1 - l0.1) + (l1.2 - l0.2) * (l1.2 - l0.2))
    (horacle : ∀ t ∈ roots, (toLineFrame l0 l1 L (curve t)).2 = 0)
    (t u : K) (h : (t, u) ∈ bezierByLine curve l0 l1 L roots) :
    t ∈ roots ∧ 0 ≤ u ∧ u ≤ 1 ∧
    (curve t).1 = l0.1 + (l1.1 - l0.1) * u ∧ (curve t).2 = l0.2 + (l1.2 - l0.2) * u := by
  have hN : (l1.1 - l0.1) * (l1.1 - l0.1) + (l1.2 - l0.2) * (l1.2 - l0.2) ≠ 0 := by
    rw [← hLsq]; exact (mul_pos hL hL).ne'
  unfold bezierByLine at h
  rw [List.mem_filterMap] at h
  obtain ⟨t', ht', hopt⟩ := h
  rw [List.mem_eraseDups] at ht'
  simp only at hopt
  split at hopt
  · rename_i hx
    simp only [Option.some.injEq, Prod.mk.injEq] at hopt
    obtain ⟨rfl, rfl⟩ := hopt
    obtain ⟨e1, e2⟩ := toLineFrame_eq l0 l1 L (curve t') hN
    have him := horacle t' ht'
    rw [e2] at him
    have hc : (l1.1 - l0.1) * ((curve t').2 - l0.2) - (l1.2 - l0.2) * ((curve t').1 - l0.1) = 0 := by
      rcases mul_eq_zero.mp him with h | h
      · exact absurd h (div_ne_zero hL.ne' hN)
      · exact h
    refine ⟨ht', div_nonneg hx.1 hL.le, (div_le_one hL).mpr hx.2, ?_, ?_⟩
    · rw [e1]
      obtain ⟨N, hNd⟩ : ∃ N, N = (l1.1 - l0.1) * (l1.1 - l0.1) + (l1.2 - l0.2) * (l1.2 - l0.2) := ⟨_, rfl⟩
      rw [← hNd] at hN ⊢
      field_simp
      linear_combination ((curve t').1 - l0.1) * hNd + (-(l1.2 - l0.2)) * hc
    · rw [e1]
      obtain ⟨N, hNd⟩ : ∃ N, N = (l1.1 - l0.1) * (l1.1 - l0.1) + (l1.2 - l0.2) * (l1.2 - l0.2) := ⟨_, rfl⟩
      rw [← hNd] at hN ⊢
      field_simp
      linear_combination ((curve t').2 - l0.2) * hNd + (l1.1 - l0.1) * hc
  · simp at hopt

end bezline

/-! ## bezier_intersections: what a reported pair is -/
section cells
variable {C S P : Type} [Add S] [Sub S] [Mul S] [Div S] [Neg S] [LT S] [LE S] [DecidableLT S]
  [DecidableLE S] [DecidableEq S] [OfNat S 0] [OfNat S 1]

/-- `Desc k c1 c2 t1 t2`: after `k` rounds of halving, `(c1, c2)` is a pair of sub-curves of `(b1, b2)` with
cell centres `(t1, t2)`, produced exactly as `bezier_intersections` produces its `BPair`s -/
inductive Desc (env : Env C S P) (two : S) (b1 b2 : C) : Nat → C → C → S → S → Prop
  | root : Desc env two b1 b2 0 b1 b2 (1 / two) (1 / two)
  | child {k : Nat} {c1 c2 : C} {t1 t2 : S} (q : BPair C S) :
      Desc env two b1 b2 k c1 c2 t1 t2 → q ∈ children env (halfPow two (k + 2)) ⟨c1, c2, t1, t2, 0⟩ →
      Desc env two b1 b2 (k + 1) q.bez1 q.bez2 q.t1 q.t2

/-- what `bezier_intersections` guarantees about a reported pair -/
def Reported (env : Env C S P) (two : S) (b1 b2 : C) (r : S × S) : Prop :=
  ∃ k c1 c2, Desc env two b1 b2 k c1 c2 r.1 r.2 ∧
    boxesIntersect (env.bbox c1) (env.bbox c2) = true ∧ isSmall env (env.bbox c1) (env.bbox c2) = true

def PairsDesc (env : Env C S P) (two : S) (b1 b2 : C) (k : Nat) (ps : List (BPair C S)) : Prop :=
  ∀ p ∈ ps, Desc env two b1 b2 k p.bez1 p.bez2 p.t1 p.t2

theorem children_ignore_id (env : Env C S P) (delta : S) (p : BPair C S) :
    children env delta p = children env delta ⟨p.bez1, p.bez2, p.t1, p.t2, 0⟩ := rfl

/-- one step of the sweep keeps: `live ⊆ pairs` (so everything live is a depth-`k` descendant), every new pair is
a depth-`k+1` descendant, every reported pair is `Reported` -/
theorem sweepStep_inv (env : Env C S P) (two : S) (b1 b2 : C) (k : Nat) (st : Sweep C S P) (p : BPair C S)
    (hp : Desc env two b1 b2 k p.bez1 p.bez2 p.t1 p.t2)
    (hnew : PairsDesc env two b1 b2 (k + 1) st.newPairs)
    (hout : ∀ r ∈ st.out, Reported env two b1 b2 r) :
    PairsDesc env two b1 b2 (k + 1) (sweepStep env (halfPow two (k + 2)) st p).newPairs ∧
    (∀ r ∈ (sweepStep env (halfPow two (k + 2)) st p).out, Reported env two b1 b2 r) := by
  unfold sweepStep
  split
  · exact ⟨hnew, hout⟩
  · simp only
    split
    · rename_i hbi
      split
      · rename_i hsm
        split
        · exact ⟨hnew, hout⟩
        · refine ⟨hnew, ?_⟩
          intro r hr
          simp only [List.mem_append, List.mem_singleton] at hr
          rcases hr with hr | hr
          · exact hout r hr
          · subst hr
            exact ⟨k, p.bez1, p.bez2, hp, hbi, hsm⟩
      · refine ⟨?_, hout⟩
        intro q hq
        simp only [List.mem_append] at hq
        rcases hq with hq | hq
        · exact hnew q hq
        · rw [children_ignore_id] at hq
          exact Desc.child q hp hq
    · exact ⟨hnew, hout⟩

theorem sweep_inv (env : Env C S P) (two : S) (b1 b2 : C) (k : Nat) (ps : List (BPair C S)) (st : Sweep C S P)
    (hps : PairsDesc env two b1 b2 k ps)
    (hnew : PairsDesc env two b1 b2 (k + 1) st.newPairs)
    (hout : ∀ r ∈ st.out, Reported env two b1 b2 r) :
    PairsDesc env two b1 b2 (k + 1) (ps.foldl (sweepStep env (halfPow two (k + 2))) st).newPairs ∧
    (∀ r ∈ (ps.foldl (sweepStep env (halfPow two (k + 2))) st).out, Reported env two b1 b2 r) := by
  induction ps generalizing st with
  | nil => exact ⟨hnew, hout⟩
  | cons p ps ih =>
    simp only [List.foldl_cons]
    obtain ⟨h1, h2⟩ := sweepStep_inv env two b1 b2 k st p (hps p (by simp)) hnew hout
    exact ih _ (fun q hq => hps q (by simp [hq])) h1 h2

theorem renumber_desc (env : Env C S P) (two : S) (b1 b2 : C) (k : Nat) (ps : List (BPair C S))
    (h : PairsDesc env two b1 b2 k ps) : PairsDesc env two b1 b2 k (renumber ps) := by
  intro q hq
  unfold renumber at hq
  rw [List.mem_map] at hq
  obtain ⟨⟨p, i⟩, hpi, rfl⟩ := hq
  have : p ∈ ps := (List.mem_zipIdx_iff_getElem?.mp hpi) |> fun h => List.mem_of_getElem? h
  exact h p this

/-- **Every pair reported by `bezier_intersections` is the centre pair of two dyadic cells, reached by repeated
halving, whose boxes overlapped and both had area `< tol_deC`** — whatever the curves, tolerances and `maxits`. -/
theorem biLoop_reported (env : Env C S P) (two : S) (b1 b2 : C) (fuel k : Nat) (pairs : List (BPair C S))
    (pts : List P) (out res : List (S × S))
    (hps : PairsDesc env two b1 b2 k pairs) (hout : ∀ r ∈ out, Reported env two b1 b2 r)
    (h : biLoop env two fuel k pairs pts out = .ok res) :
    ∀ r ∈ res, Reported env two b1 b2 r := by
  induction fuel generalizing k pairs pts out with
  | zero => simp [biLoop] at h
  | succ fuel ih =>
    unfold biLoop at h
    cases pairs with
    | nil =>
      simp only [BIResult.ok.injEq] at h
      subst h; exact hout
    | cons p ps =>
      simp only at h
      obtain ⟨h1, h2⟩ := sweep_inv env two b1 b2 k (p :: ps) ⟨p :: ps, [], pts, out⟩ hps
        (by intro q hq; simp at hq) hout
      exact ih (k + 1) _ _ _ (renumber_desc env two b1 b2 (k + 1) _ h1) h2 h

theorem bezierIntersections_reported (env : Env C S P) (two : S) (maxits : Nat) (b1 b2 : C) (res : List (S × S))
    (h : bezierIntersections env two maxits b1 b2 = .ok res) :
    ∀ r ∈ res, Reported env two b1 b2 r := by
  unfold bezierIntersections at h
  refine biLoop_reported env two b1 b2 maxits 0 _ [] [] res ?_ (by simp) h
  intro p hp
  simp only [List.mem_singleton] at hp
  subst hp
  exact Desc.root

end cells

/-! ### … and what that means geometrically -/
section geometry
variable {C P K : Type} [Field K] [LinearOrder K] [IsStrictOrderedRing K]

/-- the curve semantics the two oracles of `bezier_intersections` must respect: `halve` restricts to the two halves
of the parameter interval (de Casteljau — C09/C19), `bbox` contains the curve (C08) -/
structure EnvSound (env : Env C K P) (eval : C → K → K × K) : Prop where
  halve_left : ∀ c u, eval (env.halve c).1 u = eval c (u / 2)
  halve_right : ∀ c u, eval (env.halve c).2 u = eval c ((1 + u) / 2)
  bbox_contains : ∀ c u, 0 ≤ u → u ≤ 1 →
    (env.bbox c).xmin ≤ (eval c u).1 ∧ (eval c u).1 ≤ (env.bbox c).xmax ∧
    (env.bbox c).ymin ≤ (eval c u).2 ∧ (eval c u).2 ≤ (env.bbox c).ymax

theorem halfPow_succ (n : Nat) : halfPow (2 : K) (n + 1) = halfPow (2 : K) n / 2 := rfl

/-- a depth-`k` descendant IS the restriction of the original curve to the cell of half-width `2^-(k+1)` around
its centre -/
theorem desc_restricts (env : Env C K P) (eval : C → K → K × K) (hs : EnvSound env eval) (b1 b2 : C)
    (k : Nat) (c1 c2 : C) (t1 t2 : K) (h : Desc env (2 : K) b1 b2 k c1 c2 t1 t2) :
    (∀ u, eval c1 u = eval b1 (t1 - halfPow (2 : K) (k + 1) + 2 * halfPow (2 : K) (k + 1) * u)) ∧
    (∀ u, eval c2 u = eval b2 (t2 - halfPow (2 : K) (k + 1) + 2 * halfPow (2 : K) (k + 1) * u)) := by
  induction h with
  | root =>
    have : halfPow (2 : K) (0 + 1) = 1 / 2 := by simp [halfPow]
    rw [this]
    constructor <;> (intro u; congr 1; ring)
  | @child k c1 c2 t1 t2 q hd hq ih =>
    obtain ⟨ih1, ih2⟩ := ih
    have e1 : halfPow (2 : K) (k + 1 + 1) = halfPow (2 : K) (k + 1) / 2 := rfl
    have e2 : halfPow (2 : K) (k + 2) = halfPow (2 : K) (k + 1) / 2 := rfl
    simp only [children, List.mem_cons, List.not_mem_nil, or_false] at hq
    rcases hq with rfl | rfl | rfl | rfl <;> simp only <;> constructor <;> intro u <;>
      simp only [hs.halve_left, hs.halve_right, ih1, ih2, e1, e2] <;> congr 1 <;> ring

/-- two closed boxes that `boxes_intersect` accepts have overlapping coordinate ranges -/
theorem boxesIntersect_overlap (a b : Box K) (h : boxesIntersect a b = true) :
    a.xmin < b.xmax ∧ b.xmin < a.xmax ∧ a.ymin < b.ymax ∧ b.ymin < a.ymax := by
  unfold boxesIntersect overlapPos smin smax at h
  simp only [Bool.and_eq_true, decide_eq_true_eq] at h
  obtain ⟨hx, hy⟩ := h
  refine ⟨?_, ?_, ?_, ?_⟩
  · split_ifs at hx <;> linarith
  · split_ifs at hx <;> linarith
  · split_ifs at hy <;> linarith
  · split_ifs at hy <;> linarith

/-- **The distance bound `bezier_intersections` really provides**: for a reported `(t1, t2)` the two curve points
differ, coordinate-wise, by at most the sum of the widths (heights) of two boxes whose AREAS are below `tol_deC`.
A thin box has a small area and a large width, so this is NOT a bound by `tol_deC` — which is why the statement's
1e-5 bound is not a theorem of this algorithm (known finding F32). -/
theorem reported_close (env : Env C K P) (eval : C → K → K × K) (hs : EnvSound env eval) (b1 b2 : C)
    (r : K × K) (h : Reported env (2 : K) b1 b2 r) :
    ∃ B1 B2 : Box K, boxArea B1 < env.tolDeC ∧ boxArea B2 < env.tolDeC ∧
      |(eval b1 r.1).1 - (eval b2 r.2).1| ≤ (B1.xmax - B1.xmin) + (B2.xmax - B2.xmin) ∧
      |(eval b1 r.1).2 - (eval b2 r.2).2| ≤ (B1.ymax - B1.ymin) + (B2.ymax - B2.ymin) := by
  obtain ⟨k, c1, c2, hd, hbi, hsm⟩ := h
  obtain ⟨r1, r2⟩ := desc_restricts env eval hs b1 b2 k c1 c2 r.1 r.2 hd
  have p1 : eval c1 (1 / 2) = eval b1 r.1 := by rw [r1]; congr 1; ring
  have p2 : eval c2 (1 / 2) = eval b2 r.2 := by rw [r2]; congr 1; ring
  obtain ⟨a1, a2, a3, a4⟩ := hs.bbox_contains c1 (1 / 2) (by norm_num) (by norm_num)
  obtain ⟨b1', b2', b3, b4⟩ := hs.bbox_contains c2 (1 / 2) (by norm_num) (by norm_num)
  rw [p1] at a1 a2 a3 a4
  rw [p2] at b1' b2' b3 b4
  obtain ⟨o1, o2, o3, o4⟩ := boxesIntersect_overlap _ _ hbi
  unfold isSmall at hsm
  simp only [Bool.and_eq_true, decide_eq_true_eq] at hsm
  refine ⟨env.bbox c1, env.bbox c2, hsm.1, hsm.2, ?_, ?_⟩
  · rw [abs_le]; constructor <;> linarith
  · rw [abs_le]; constructor <;> linarith

end geometry

/-! ## Path.intersect -/
section pathint
variable {S P : Type} [Add S] [Sub S] [Mul S] [Div S] [LT S] [LE S] [DecidableLT S] [DecidableLE S]
  [DecidableEq S] [OfNat S 0] [OfNat S 1]

theorem redundant_length (close : P → P → Bool) (pts : List P) : (redundant close pts).length = pts.length := by
  simp [redundant]

theorem redundant_getElem (close : P → P → Bool) (pts : List P) (k : Nat) (hk : k < pts.length) :
    (redundant close pts)[k]'(by rw [redundant_length]; exact hk)
      = (pts.take k).any (fun q => close q pts[k]) := by
  simp [redundant]

/-- **Every entry of `Path.intersect` comes from a segment-level hit, carries that hit's segments and parameters
unchanged, and its `T`s are `t2T(index(seg), t)`.** -/
theorem pathIntersect_mem (close : P → P → Bool) (fr1 fr2 : List S) (lab1 lab2 : List Nat)
    (hits : List (Hit S P)) (e : (Option S × Nat × S) × (Option S × Nat × S))
    (he : e ∈ pathIntersect close fr1 fr2 lab1 lab2 hits) :
    ∃ h ∈ hits, e = ((PathParam.t2T fr1 (firstIdx lab1 h.i) h.t1, h.i, h.t1),
                     (PathParam.t2T fr2 (firstIdx lab2 h.j) h.t2, h.j, h.t2)) := by
  unfold pathIntersect at he
  simp only at he
  rw [List.mem_filterMap] at he
  obtain ⟨⟨h, r⟩, hmem, hopt⟩ := he
  have hh : h ∈ hits := (List.of_mem_zip hmem).1
  simp only at hopt
  split at hopt
  · simp at hopt
  · simp only [Option.some.injEq] at hopt
    exact ⟨h, hh, hopt.symm⟩

/-- the entry produced by the `k`-th hit -/
def entryOf (fr1 fr2 : List S) (lab1 lab2 : List Nat) (h : Hit S P) :
    (Option S × Nat × S) × (Option S × Nat × S) :=
  ((PathParam.t2T fr1 (firstIdx lab1 h.i) h.t1, h.i, h.t1), (PathParam.t2T fr2 (firstIdx lab2 h.j) h.t2, h.j, h.t2))

/-- `Path.intersect` as a filter: hit `k` is dropped iff the point of some EARLIER hit is within `tol` of it -/
theorem pathIntersect_eq_filter (close : P → P → Bool) (fr1 fr2 : List S) (lab1 lab2 : List Nat)
    (hits : List (Hit S P)) :
    pathIntersect close fr1 fr2 lab1 lab2 hits
      = ((hits.zip (redundant close (hits.map (·.pt)))).filter (fun hr => !hr.2)).map
          (fun hr => entryOf fr1 fr2 lab1 lab2 hr.1) := by
  unfold pathIntersect entryOf
  simp only
  induction (hits.zip (redundant close (hits.map (·.pt)))) with
  | nil => rfl
  | cons x xs ih =>
    obtain ⟨h, r⟩ := x
    cases r <;> simp [List.filterMap_cons, List.filter_cons, ih]

/-- **A hit whose point is farther than `tol` from the point of every earlier hit survives the joint
de-duplication** (its entry is in the result). -/
theorem pathIntersect_keeps (close : P → P → Bool) (fr1 fr2 : List S) (lab1 lab2 : List Nat)
    (hits : List (Hit S P)) (k : Nat) (hk : k < hits.length)
    (hfar : ∀ j, (hj : j < k) → close (hits[j]'(by omega)).pt hits[k].pt = false) :
    entryOf fr1 fr2 lab1 lab2 hits[k] ∈ pathIntersect close fr1 fr2 lab1 lab2 hits := by
  rw [pathIntersect_eq_filter, List.mem_map]
  refine ⟨(hits[k], false), ?_, rfl⟩
  rw [List.mem_filter]
  refine ⟨?_, by simp⟩
  have hlen : (redundant close (hits.map (·.pt))).length = hits.length := by rw [redundant_length]; simp
  have hr : (redundant close (hits.map (·.pt)))[k]'(by omega) = false := by
    rw [redundant_getElem close (hits.map (·.pt)) k (by simpa using hk)]
    rw [List.any_eq_false]
    intro q hq
    rw [List.mem_take_iff_getElem] at hq
    obtain ⟨j, hj, rfl⟩ := hq
    have hjk : j < k := by omega
    simp only [List.getElem_map]
    simpa using hfar j hjk
  have : (hits.zip (redundant close (hits.map (·.pt))))[k]'(by simp [hlen]; omega) = (hits[k], false) := by
    simp [List.getElem_zip, hr]
  rw [← this]
  exact List.getElem_mem _

/-- the result never has more entries than there were hits, in the same order (it is a sub-list image) -/
theorem pathIntersect_length_le (close : P → P → Bool) (fr1 fr2 : List S) (lab1 lab2 : List Nat)
    (hits : List (Hit S P)) : (pathIntersect close fr1 fr2 lab1 lab2 hits).length ≤ hits.length := by
  rw [pathIntersect_eq_filter, List.length_map]
  refine (List.length_filter_le _ _).trans ?_
  simp [List.length_zip, redundant_length]

end pathint

/-! ### the four points of a `Path.intersect` entry coincide -/
section coherent
variable {K : Type} [Field K] [LinearOrder K] [IsStrictOrderedRing K]

/-- **`path.point(T) = seg.point(t)` for the entries of `Path.intersect`**: an entry carries `T = t2T(k, t)` with
`k = index(seg)` (`pathIntersect_mem`); for length fractions that are non-negative and sum to 1, a segment of positive
length and `0 < t ≤ 1` (with `T` strictly inside `(0,1)`; the ends are the `T = 0, 1` shortcuts), the search loop of
`Path.point(T)` selects exactly segment `k` at parameter `t` — so `path.point(T)` IS `seg.point(t)`, and by the
segment-level soundness theorems that is the other segment's point too. -/
theorem entry_point_coherent (fr : List K) (hnn : ∀ l ∈ fr, 0 ≤ l) (hsum : fr.sum = 1) (k : ℕ) (l t T : K)
    (hk : fr[k]? = some l) (hl : 0 < l) (ht0 : 0 < t) (ht1 : t ≤ 1) (hT : PathParam.t2T fr k t = some T)
    (hT0 : 0 < T) (hT1 : T < 1) : PathParam.pointIdx fr T = some (k, t) := by
  have hne : fr ≠ [] := by
    intro h0; rw [h0] at hk; simp at hk
  rw [C05.pointIdx_eq_T2t fr T hne]
  exact C05.T2t_t2T fr hnn hsum k l t T hk hl ht0 ht1 hT hT0 hT1

end coherent

end SvgVerif.Props.C11
