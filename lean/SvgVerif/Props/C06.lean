import SvgVerif.Gen.C06
import SvgVerif.Lemmas.QuadLength
import SvgVerif.Props.C06SegLen
/-! # C06 — `length(t0, t1)` is the arc length `∫ ‖γ'‖`

Statements over ℝ about the definitions traced (on every run) from `Line.length`,
`QuadraticBezier.length` (every branch: the closed form, the `abs(a) < 1e-12` branch and the three
cases of the `isnan` fallback) and `derivative`.  `CubicBezier.length` / `Arc.length` hand the
speed to `scipy.integrate.quad` (oracle) or to `segment_length`, whose model is treated in
`Props/C06SegLen.lean` together with `Path.length`. -/
namespace SvgVerif.Props.C06
set_option linter.unusedVariables false
open SvgVerif SvgVerif.Lemmas.QuadLength

/-! ## Line -/
/-- `Line.length(t0,t1)` is the integral of the speed -/
theorem line_length_is_arclength (p0x p0y p1x p1y t0 t1 : ℝ) :
    Gen.C06.line_length p0x p0y p1x p1y t0 t1
      = ∫ t in t0..t1, Real.sqrt (Gen.C06.line_dx p0x p0y p1x p1y t ^ 2 + Gen.C06.line_dy p0x p0y p1x p1y t ^ 2) := by
  simp only [Gen.C06.line_length, Gen.C06.line_dx, Gen.C06.line_dy, intervalIntegral.integral_const, smul_eq_mul, sq]
  ring

/-! ## Quadratic: the closed form -/
/-- the squared speed of the traced derivative is the quadratic `c2 t² + c1 t + c0` of the code -/
theorem quad_speed_sq (p0x p0y p1x p1y p2x p2y t : ℝ) :
    Gen.C06.quad_dx p0x p0y p1x p1y p2x p2y t ^ 2 + Gen.C06.quad_dy p0x p0y p1x p1y p2x p2y t ^ 2
      = (4 * ((p0x - 2 * p1x + p2x) ^ 2 + (p0y - 2 * p1y + p2y) ^ 2)) * t ^ 2
        + (4 * ((p0x - 2 * p1x + p2x) * (2 * (p1x - p0x)) + (p0y - 2 * p1y + p2y) * (2 * (p1y - p0y)))) * t
        + ((2 * (p1x - p0x)) ^ 2 + (2 * (p1y - p0y)) ^ 2) := by
  simp only [Gen.C06.quad_dx, Gen.C06.quad_dy]
  ring

/-- the traced closed-form branch is `closedForm c2 c1 c0 t0 t1` with the code's `c2, c1, c0` -/
theorem quad_length_is_closedForm (p0x p0y p1x p1y p2x p2y t0 t1 : ℝ) :
    Gen.C06.quad_length p0x p0y p1x p1y p2x p2y t0 t1
      = closedForm (4 * ((p0x - 2 * p1x + p2x) ^ 2 + (p0y - 2 * p1y + p2y) ^ 2))
          (4 * ((p0x - 2 * p1x + p2x) * (2 * (p1x - p0x)) + (p0y - 2 * p1y + p2y) * (2 * (p1y - p0y))))
          ((2 * (p1x - p0x)) ^ 2 + (2 * (p1y - p0y)) ^ 2) t0 t1 := by
  simp only [Gen.C06.quad_length, closedForm]

/-- **Quadratic, control points not collinear** (`a × b ≠ 0`): the value of the closed form is
the arc length between `t0` and `t1` (any order of `t0`, `t1`). -/
theorem quad_length_is_arclength (p0x p0y p1x p1y p2x p2y t0 t1 : ℝ)
    (h : (p0x - 2 * p1x + p2x) * (2 * (p1y - p0y)) - (p0y - 2 * p1y + p2y) * (2 * (p1x - p0x)) ≠ 0) :
    Gen.C06.quad_length p0x p0y p1x p1y p2x p2y t0 t1
      = ∫ t in t0..t1, Real.sqrt (Gen.C06.quad_dx p0x p0y p1x p1y p2x p2y t ^ 2 + Gen.C06.quad_dy p0x p0y p1x p1y p2x p2y t ^ 2) := by
  rw [quad_length_is_closedForm]
  obtain ⟨ax, hax⟩ : ∃ ax, ax = p0x - 2 * p1x + p2x := ⟨_, rfl⟩
  obtain ⟨ay, hay⟩ : ∃ ay, ay = p0y - 2 * p1y + p2y := ⟨_, rfl⟩
  obtain ⟨bx, hbx⟩ : ∃ bx, bx = 2 * (p1x - p0x) := ⟨_, rfl⟩
  obtain ⟨by', hby⟩ : ∃ by', by' = 2 * (p1y - p0y) := ⟨_, rfl⟩
  have hint : ∀ t : ℝ, Gen.C06.quad_dx p0x p0y p1x p1y p2x p2y t ^ 2 + Gen.C06.quad_dy p0x p0y p1x p1y p2x p2y t ^ 2
      = (4 * (ax ^ 2 + ay ^ 2)) * t ^ 2 + (4 * (ax * bx + ay * by')) * t + (bx ^ 2 + by' ^ 2) := by
    intro t; rw [quad_speed_sq, hax, hay, hbx, hby]
  simp only [hint]
  rw [← hax, ← hay, ← hbx, ← hby] at h ⊢
  have hcross : 0 < (ax * by' - ay * bx) ^ 2 := by positivity
  have hc2 : 0 < 4 * (ax ^ 2 + ay ^ 2) := by
    have : 0 < ax ^ 2 + ay ^ 2 := by
      by_contra hn
      have h0 : ax ^ 2 + ay ^ 2 = 0 := le_antisymm (not_lt.mp hn) (by positivity)
      have hx : ax = 0 := by nlinarith [sq_nonneg ax, sq_nonneg ay]
      have hy : ay = 0 := by nlinarith [sq_nonneg ax, sq_nonneg ay]
      rw [hx, hy] at hcross; simp at hcross
    linarith
  have hdisc : (4 * (ax * bx + ay * by')) ^ 2 < 4 * (4 * (ax ^ 2 + ay ^ 2)) * (bx ^ 2 + by' ^ 2) := by
    nlinarith [hcross]
  exact closedForm_eq_integral _ _ _ t0 t1 hc2 hdisc

/-! ## Quadratic: `abs(a) < 1e-12` (control point at the midpoint: a straight, uniformly traversed curve) -/
theorem quad_length_straight_is_arclength (p0x p0y p1x p1y p2x p2y t0 t1 : ℝ)
    (hx : p0x - 2 * p1x + p2x = 0) (hy : p0y - 2 * p1y + p2y = 0) :
    Gen.C06.quad_length_straight p0x p0y p1x p1y p2x p2y t0 t1
      = ∫ t in t0..t1, Real.sqrt (Gen.C06.quad_dx p0x p0y p1x p1y p2x p2y t ^ 2 + Gen.C06.quad_dy p0x p0y p1x p1y p2x p2y t ^ 2) := by
  have hint : ∀ t : ℝ, Gen.C06.quad_dx p0x p0y p1x p1y p2x p2y t ^ 2 + Gen.C06.quad_dy p0x p0y p1x p1y p2x p2y t ^ 2
      = (2 * (p1x - p0x)) * (2 * (p1x - p0x)) + (2 * (p1y - p0y)) * (2 * (p1y - p0y)) := by
    intro t; rw [quad_speed_sq, hx, hy]; ring
  simp only [hint, Gen.C06.quad_length_straight, intervalIntegral.integral_const, smul_eq_mul]
  ring

/-! ## Quadratic: the `isnan` fallback (collinear control points, the curve folds back: `a = -λ b`, λ > 0) -/
section foldback
variable (p0x p0y p1x p1y p2x p2y t0 t1 lam : ℝ)

/-- speed of a fold-back quadratic in terms of `|a|`, `|b|` -/
theorem fold_speed (hl : 0 < lam)
    (hax : p0x - 2 * p1x + p2x = -lam * (2 * (p1x - p0x))) (hay : p0y - 2 * p1y + p2y = -lam * (2 * (p1y - p0y))) (t : ℝ) :
    Real.sqrt (Gen.C06.quad_dx p0x p0y p1x p1y p2x p2y t ^ 2 + Gen.C06.quad_dy p0x p0y p1x p1y p2x p2y t ^ 2)
      = |Real.sqrt ((2 * (p1x - p0x)) ^ 2 + (2 * (p1y - p0y)) ^ 2)
          - 2 * Real.sqrt ((p0x - 2 * p1x + p2x) ^ 2 + (p0y - 2 * p1y + p2y) ^ 2) * t| := by
  rw [← speed_foldback _ _ _ _ lam t hl hax hay]
  congr 1
  simp only [Gen.C06.quad_dx, Gen.C06.quad_dy]
  ring

/-- `|a| > 0` for a fold-back with `b ≠ 0` -/
theorem fold_a_pos (hl : 0 < lam) (hb : 0 < (2 * (p1x - p0x)) ^ 2 + (2 * (p1y - p0y)) ^ 2)
    (hax : p0x - 2 * p1x + p2x = -lam * (2 * (p1x - p0x))) (hay : p0y - 2 * p1y + p2y = -lam * (2 * (p1y - p0y))) :
    0 < Real.sqrt ((p0x - 2 * p1x + p2x) ^ 2 + (p0y - 2 * p1y + p2y) ^ 2) := by
  apply Real.sqrt_pos.mpr
  rw [hax, hay]
  have : (-lam * (2 * (p1x - p0x))) ^ 2 + (-lam * (2 * (p1y - p0y))) ^ 2 = lam ^ 2 * ((2 * (p1x - p0x)) ^ 2 + (2 * (p1y - p0y)) ^ 2) := by ring
  rw [this]; positivity

/-- case `t1 < tstar` of the fallback (weak inequality suffices), `tstar = |b| / (2|a|)` -/
theorem quad_fold_before_is_arclength (hl : 0 < lam) (hb : 0 < (2 * (p1x - p0x)) ^ 2 + (2 * (p1y - p0y)) ^ 2)
    (hax : p0x - 2 * p1x + p2x = -lam * (2 * (p1x - p0x))) (hay : p0y - 2 * p1y + p2y = -lam * (2 * (p1y - p0y)))
    (h01 : t0 ≤ t1)
    (h : t1 ≤ Real.sqrt ((2 * (p1x - p0x)) ^ 2 + (2 * (p1y - p0y)) ^ 2) / (2 * Real.sqrt ((p0x - 2 * p1x + p2x) ^ 2 + (p0y - 2 * p1y + p2y) ^ 2))) :
    Gen.C06.quad_fold_before p0x p0y p1x p1y p2x p2y t0 t1
      = ∫ t in t0..t1, Real.sqrt (Gen.C06.quad_dx p0x p0y p1x p1y p2x p2y t ^ 2 + Gen.C06.quad_dy p0x p0y p1x p1y p2x p2y t ^ 2) := by
  simp only [fold_speed p0x p0y p1x p1y p2x p2y lam hl hax hay]
  rw [foldback_before _ _ t0 t1 (fold_a_pos p0x p0y p1x p1y p2x p2y lam hl hb hax hay) h01 h]
  simp only [Gen.C06.quad_fold_before, sq]

/-- case `tstar < t0` of the fallback -/
theorem quad_fold_after_is_arclength (hl : 0 < lam) (hb : 0 < (2 * (p1x - p0x)) ^ 2 + (2 * (p1y - p0y)) ^ 2)
    (hax : p0x - 2 * p1x + p2x = -lam * (2 * (p1x - p0x))) (hay : p0y - 2 * p1y + p2y = -lam * (2 * (p1y - p0y)))
    (h01 : t0 ≤ t1)
    (h : Real.sqrt ((2 * (p1x - p0x)) ^ 2 + (2 * (p1y - p0y)) ^ 2) / (2 * Real.sqrt ((p0x - 2 * p1x + p2x) ^ 2 + (p0y - 2 * p1y + p2y) ^ 2)) ≤ t0) :
    Gen.C06.quad_fold_after p0x p0y p1x p1y p2x p2y t0 t1
      = ∫ t in t0..t1, Real.sqrt (Gen.C06.quad_dx p0x p0y p1x p1y p2x p2y t ^ 2 + Gen.C06.quad_dy p0x p0y p1x p1y p2x p2y t ^ 2) := by
  simp only [fold_speed p0x p0y p1x p1y p2x p2y lam hl hax hay]
  rw [foldback_after _ _ t0 t1 (fold_a_pos p0x p0y p1x p1y p2x p2y lam hl hb hax hay) h01 h]
  simp only [Gen.C06.quad_fold_after, sq]

/-- case `t0 ≤ tstar ≤ t1` of the fallback: the cusp lies inside the interval -/
theorem quad_fold_across_is_arclength (hl : 0 < lam) (hb : 0 < (2 * (p1x - p0x)) ^ 2 + (2 * (p1y - p0y)) ^ 2)
    (hax : p0x - 2 * p1x + p2x = -lam * (2 * (p1x - p0x))) (hay : p0y - 2 * p1y + p2y = -lam * (2 * (p1y - p0y)))
    (h0 : t0 ≤ Real.sqrt ((2 * (p1x - p0x)) ^ 2 + (2 * (p1y - p0y)) ^ 2) / (2 * Real.sqrt ((p0x - 2 * p1x + p2x) ^ 2 + (p0y - 2 * p1y + p2y) ^ 2)))
    (h1 : Real.sqrt ((2 * (p1x - p0x)) ^ 2 + (2 * (p1y - p0y)) ^ 2) / (2 * Real.sqrt ((p0x - 2 * p1x + p2x) ^ 2 + (p0y - 2 * p1y + p2y) ^ 2)) ≤ t1) :
    Gen.C06.quad_fold_across p0x p0y p1x p1y p2x p2y t0 t1
      = ∫ t in t0..t1, Real.sqrt (Gen.C06.quad_dx p0x p0y p1x p1y p2x p2y t ^ 2 + Gen.C06.quad_dy p0x p0y p1x p1y p2x p2y t ^ 2) := by
  simp only [fold_speed p0x p0y p1x p1y p2x p2y lam hl hax hay]
  rw [foldback_across _ _ t0 t1 (fold_a_pos p0x p0y p1x p1y p2x p2y lam hl hb hax hay) h0 h1]
  simp only [Gen.C06.quad_fold_across, sq]

end foldback

/-! ## non-vacuity: concrete control points meeting the hypotheses -/
example : ((0:ℝ) - 2 * 1 + 3) * (2 * (2 - 0)) - ((0:ℝ) - 2 * 2 + 0) * (2 * (1 - 0)) ≠ 0 := by norm_num
/-- the fold-back with control points `0, 2, 1` on the real axis: `a = -3`, `b = 4`, `λ = 3/4`, cusp at `tstar = 2/3` inside (0,1) -/
example : ((0:ℝ) - 2 * 2 + 1 = -(3/4) * (2 * (2 - 0))) ∧ (0:ℝ) < 3/4 := by norm_num

end SvgVerif.Props.C06
