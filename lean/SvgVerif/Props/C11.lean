import SvgVerif.Gen.C11
import SvgVerif.Gen.C04
import SvgVerif.Model.Intersect
import Mathlib.Algebra.Order.Field.Basic
import Mathlib.Tactic.Ring
import Mathlib.Tactic.Linarith
import Mathlib.Tactic.FieldSimp
import Mathlib.Tactic.LinearCombination
import Mathlib.Tactic.Positivity
import Mathlib.Algebra.Order.Floor.Ring
import Mathlib.Analysis.SpecialFunctions.Trigonometric.Basic
/-! # C11 — every reported intersection is a real one, in range, with coherent parameters

Closed forms (`Line.intersect(Line)`, `bezier_by_line_intersections`, the `u1transform` route of
`Arc.intersect`) are TRACED from the running code (`Gen/C11.lean`, regenerated on every run) and
proved sound here as identities over an arbitrary field.  The control logic around them (filters,
the pair list of `bezier_intersections`, `Path.intersect`) is the hand-written model
`Model/Intersect.lean`, executed against the real functions on exact inputs. -/
namespace SvgVerif.Props.C11
set_option linter.unusedVariables false
set_option linter.unusedSimpArgs false
open SvgVerif SvgVerif.Model.Intersect

/-! ## Line ∩ Line -/
section lineline
variable {K : Type} [Field K]
variable (p0x p0y p1x p1y q0x q0y q1x q1y : K)

/-- the traced closed form is the model's, term for term -/
theorem ll_bridge :
    Gen.C11.ll_denom p0x p0y p1x p1y q0x q0y q1x q1y = llDenom (p0x, p0y) (p1x, p1y) (q0x, q0y) (q1x, q1y) ∧
    Gen.C11.ll_t1 p0x p0y p1x p1y q0x q0y q1x q1y = llT1 (p0x, p0y) (p1x, p1y) (q0x, q0y) (q1x, q1y) ∧
    Gen.C11.ll_t2 p0x p0y p1x p1y q0x q0y q1x q1y = llT2 (p0x, p0y) (p1x, p1y) (q0x, q0y) (q1x, q1y) := by
  simp only [Gen.C11.ll_denom, Gen.C11.ll_t1, Gen.C11.ll_t2, llDenom, llT1, llT2, and_self]

/-- **Soundness of the closed form**: whenever `denom ≠ 0`, the point of `self` at `t1` IS the point of
`other_seg` at `t2` (`Line.point(t) = start + (end − start)·t`), exactly. -/
theorem ll_sound (h : Gen.C11.ll_denom p0x p0y p1x p1y q0x q0y q1x q1y ≠ 0) :
    p0x + (p1x - p0x) * Gen.C11.ll_t1 p0x p0y p1x p1y q0x q0y q1x q1y
      = q0x + (q1x - q0x) * Gen.C11.ll_t2 p0x p0y p1x p1y q0x q0y q1x q1y ∧
    p0y + (p1y - p0y) * Gen.C11.ll_t1 p0x p0y p1x p1y q0x q0y q1x q1y
      = q0y + (q1y - q0y) * Gen.C11.ll_t2 p0x p0y p1x p1y q0x q0y q1x q1y := by
  simp only [Gen.C11.ll_denom] at h
  simp only [Gen.C11.ll_t1, Gen.C11.ll_t2]
  obtain ⟨D, hD⟩ : ∃ D, D = (p1x - p0x) * (q0y - q1y) - (p1y - p0y) * (q0x - q1x) := ⟨_, rfl⟩
  rw [← hD] at h ⊢
  constructor
  · field_simp
    linear_combination (p0x - q0x) * hD
  · field_simp
    linear_combination (p0y - q0y) * hD

/-- swapping the operands negates `denom` … -/
theorem ll_swap_denom :
    Gen.C11.ll_denom q0x q0y q1x q1y p0x p0y p1x p1y = -Gen.C11.ll_denom p0x p0y p1x p1y q0x q0y q1x q1y := by
  simp only [Gen.C11.ll_denom]; ring

/-- … and **exchanges the parameters**: `other.intersect(self)` computes `(t2, t1)`. -/
theorem ll_swap (h : Gen.C11.ll_denom p0x p0y p1x p1y q0x q0y q1x q1y ≠ 0) :
    Gen.C11.ll_t1 q0x q0y q1x q1y p0x p0y p1x p1y = Gen.C11.ll_t2 p0x p0y p1x p1y q0x q0y q1x q1y ∧
    Gen.C11.ll_t2 q0x q0y q1x q1y p0x p0y p1x p1y = Gen.C11.ll_t1 p0x p0y p1x p1y q0x q0y q1x q1y := by
  have h' : Gen.C11.ll_denom q0x q0y q1x q1y p0x p0y p1x p1y ≠ 0 := by
    rw [ll_swap_denom]; exact neg_ne_zero.mpr h
  simp only [Gen.C11.ll_denom] at h h'
  simp only [Gen.C11.ll_t1, Gen.C11.ll_t2]
  obtain ⟨D, hD⟩ : ∃ D, D = (p1x - p0x) * (q0y - q1y) - (p1y - p0y) * (q0x - q1x) := ⟨_, rfl⟩
  obtain ⟨D', hD'⟩ : ∃ D', D' = (q1x - q0x) * (p0y - p1y) - (q1y - q0y) * (p0x - p1x) := ⟨_, rfl⟩
  have hDD : D' = -D := by rw [hD, hD']; ring
  rw [← hD] at h ⊢
  rw [← hD'] at h' ⊢
  subst hDD
  constructor
  · field_simp
    ring
  · field_simp
    ring

end lineline

/-! ### the decision logic around the closed form -/
section lineline_model
variable {K : Type} [Field K] [LinearOrder K] [IsStrictOrderedRing K]

/-- **Every pair returned by the model of `Line.intersect(Line)` is in range and is a common point**, provided
`np.isclose(denom, 0)` is true at `denom = 0` (so the division is never by zero). -/
theorem lineLine_sound (closeZero : K → Bool) (hcz : closeZero 0 = true) (p0 p1 q0 q1 : K × K) (t1 t2 : K)
    (h : (t1, t2) ∈ lineLine closeZero p0 p1 q0 q1) :
    (0 ≤ t1 ∧ t1 ≤ 1 ∧ 0 ≤ t2 ∧ t2 ≤ 1) ∧
    p0.1 + (p1.1 - p0.1) * t1 = q0.1 + (q1.1 - q0.1) * t2 ∧
    p0.2 + (p1.2 - p0.2) * t1 = q0.2 + (q1.2 - q0.2) * t2 := by
  unfold lineLine at h
  split at h
  · simp at h
  · split at h
    · simp at h
    · rename_i hh hc
      have hd : llDenom p0 p1 q0 q1 ≠ 0 := by
        intro h0; rw [h0] at hc; exact hc hcz
      simp only at h
      split at h
      · rename_i hr
        simp only [List.mem_singleton, Prod.mk.injEq] at h
        obtain ⟨rfl, rfl⟩ := h
        refine ⟨hr, ?_⟩
        have := ll_sound p0.1 p0.2 p1.1 p1.2 q0.1 q0.2 q1.1 q1.2
          (by have := (ll_bridge p0.1 p0.2 p1.1 p1.2 q0.1 q0.2 q1.1 q1.2).1; rw [this]; exact hd)
        have hb := ll_bridge p0.1 p0.2 p1.1 p1.2 q0.1 q0.2 q1.1 q1.2
        rw [hb.2.1, hb.2.2] at this
        exact this
      · simp at h

/-- at most one pair is ever returned -/
theorem lineLine_length_le_one (closeZero : K → Bool) (p0 p1 q0 q1 : K × K) :
    (lineLine closeZero p0 p1 q0 q1).length ≤ 1 := by
  unfold lineLine
  split
  · simp
  · split
    · simp
    · simp only; split <;> simp

example : lineLine (fun d : ℚ => decide (d = 0)) (0, 0) (2, 2) (0, 2) (2, 0) = [(1 / 2, 1 / 2)] := by decide +kernel

end lineline_model

/-! ## Bezier ∩ Line (`bezier_by_line_intersections`) -/
section bezline
variable {K : Type} [Field K]

/-- the polynomial handed to `polyroots01` IS (up to the non-zero factor `L/|d|²`) the cross product
`d × (B(t) − l0)`, and the reported line parameter IS the projection `d·(B(t) − l0)/|d|²` (quadratic). -/
theorem bl_quad_bridge (b0x b0y b1x b1y b2x b2y l0x l0y l1x l1y L t : K)
    (hL : L ≠ 0) (hN : (l1x - l0x) * (l1x - l0x) + (l1y - l0y) * (l1y - l0y) ≠ 0) :
    Gen.C11.bl_quad_c0 b0x b0y b1x b1y b2x b2y l0x l0y l1x l1y L * t ^ 2
      + Gen.C11.bl_quad_c1 b0x b0y b1x b1y b2x b2y l0x l0y l1x l1y L * t
      + Gen.C11.bl_quad_c2 b0x b0y b1x b1y b2x b2y l0x l0y l1x l1y L
      = L / ((l1x - l0x) * (l1x - l0x) + (l1y - l0y) * (l1y - l0y)) *
        ((l1x - l0x) * (Gen.C11.bl_quad_py b0x b0y b1x b1y b2x b2y t - l0y)
          - (l1y - l0y) * (Gen.C11.bl_quad_px b0x b0y b1x b1y b2x b2y t - l0x)) ∧
    Gen.C11.bl_quad_linet b0x b0y b1x b1y b2x b2y l0x l0y l1x l1y L t
      = ((l1x - l0x) * (Gen.C11.bl_quad_px b0x b0y b1x b1y b2x b2y t - l0x)
          + (l1y - l0y) * (Gen.C11.bl_quad_py b0x b0y b1x b1y b2x b2y t - l0y))
        / ((l1x - l0x) * (l1x - l0x) + (l1y - l0y) * (l1y - l0y)) := by
  simp only [Gen.C11.bl_quad_c0, Gen.C11.bl_quad_c1, Gen.C11.bl_quad_c2, Gen.C11.bl_quad_linet,
    Gen.C11.bl_quad_px, Gen.C11.bl_quad_py]
  constructor <;> (field_simp; ring)

theorem bl_cubic_bridge (b0x b0y b1x b1y b2x b2y b3x b3y l0x l0y l1x l1y L t : K)
    (hL : L ≠ 0) (hN : (l1x - l0x) * (l1x - l0x) + (l1y - l0y) * (l1y - l0y) ≠ 0) :
    Gen.C11.bl_cubic_c0 b0x b0y b1x b1y b2x b2y b3x b3y l0x l0y l1x l1y L * t ^ 3
      + Gen.C11.bl_cubic_c1 b0x b0y b1x b1y b2x b2y b3x b3y l0x l0y l1x l1y L * t ^ 2
      + Gen.C11.bl_cubic_c2 b0x b0y b1x b1y b2x b2y b3x b3y l0x l0y l1x l1y L * t
      + Gen.C11.bl_cubic_c3 b0x b0y b1x b1y b2x b2y b3x b3y l0x l0y l1x l1y L
      = L / ((l1x - l0x) * (l1x - l0x) + (l1y - l0y) * (l1y - l0y)) *
        ((l1x - l0x) * (Gen.C11.bl_cubic_py b0x b0y b1x b1y b2x b2y b3x b3y t - l0y)
          - (l1y - l0y) * (Gen.C11.bl_cubic_px b0x b0y b1x b1y b2x b2y b3x b3y t - l0x)) ∧
    Gen.C11.bl_cubic_linet b0x b0y b1x b1y b2x b2y b3x b3y l0x l0y l1x l1y L t
      = ((l1x - l0x) * (Gen.C11.bl_cubic_px b0x b0y b1x b1y b2x b2y b3x b3y t - l0x)
          + (l1y - l0y) * (Gen.C11.bl_cubic_py b0x b0y b1x b1y b2x b2y b3x b3y t - l0y))
        / ((l1x - l0x) * (l1x - l0x) + (l1y - l0y) * (l1y - l0y)) := by
  simp only [Gen.C11.bl_cubic_c0, Gen.C11.bl_cubic_c1, Gen.C11.bl_cubic_c2, Gen.C11.bl_cubic_c3,
    Gen.C11.bl_cubic_linet, Gen.C11.bl_cubic_px, Gen.C11.bl_cubic_py]
  constructor <;> (field_simp; ring)

/-- the geometric core, free of the code's expressions: if `d × (z − l0) = 0` then `z = l0 + u·d` for
`u = d·(z − l0)/|d|²` -/
theorem on_line_of_cross_zero (zx zy l0x l0y dx dy : K) (hN : dx * dx + dy * dy ≠ 0)
    (h : dx * (zy - l0y) - dy * (zx - l0x) = 0) :
    zx = l0x + dx * ((dx * (zx - l0x) + dy * (zy - l0y)) / (dx * dx + dy * dy)) ∧
    zy = l0y + dy * ((dx * (zx - l0x) + dy * (zy - l0y)) / (dx * dx + dy * dy)) := by
  obtain ⟨N, hNd⟩ : ∃ N, N = dx * dx + dy * dy := ⟨_, rfl⟩
  rw [← hNd] at hN ⊢
  constructor
  · field_simp
    linear_combination (zx - l0x) * hNd + (-dy) * h
  · field_simp
    linear_combination (zy - l0y) * hNd + dx * h

/-- **Soundness of `bezier_by_line_intersections` (quadratic)**: if `t` is a root of the polynomial the
code hands to `polyroots01`, the Bezier's point at `t` IS the line's point at the reported parameter. -/
theorem bl_quad_sound (b0x b0y b1x b1y b2x b2y l0x l0y l1x l1y L t : K)
    (hL : L ≠ 0) (hN : (l1x - l0x) * (l1x - l0x) + (l1y - l0y) * (l1y - l0y) ≠ 0)
    (hroot : Gen.C11.bl_quad_c0 b0x b0y b1x b1y b2x b2y l0x l0y l1x l1y L * t ^ 2
      + Gen.C11.bl_quad_c1 b0x b0y b1x b1y b2x b2y l0x l0y l1x l1y L * t
      + Gen.C11.bl_quad_c2 b0x b0y b1x b1y b2x b2y l0x l0y l1x l1y L = 0) :
    Gen.C11.bl_quad_px b0x b0y b1x b1y b2x b2y t
      = l0x + (l1x - l0x) * Gen.C11.bl_quad_linet b0x b0y b1x b1y b2x b2y l0x l0y l1x l1y L t ∧
    Gen.C11.bl_quad_py b0x b0y b1x b1y b2x b2y t
      = l0y + (l1y - l0y) * Gen.C11.bl_quad_linet b0x b0y b1x b1y b2x b2y l0x l0y l1x l1y L t := by
  obtain ⟨h1, h2⟩ := bl_quad_bridge b0x b0y b1x b1y b2x b2y l0x l0y l1x l1y L t hL hN
  rw [h1] at hroot
  rw [h2]
  have hc : (l1x - l0x) * (Gen.C11.bl_quad_py b0x b0y b1x b1y b2x b2y t - l0y)
      - (l1y - l0y) * (Gen.C11.bl_quad_px b0x b0y b1x b1y b2x b2y t - l0x) = 0 := by
    rcases mul_eq_zero.mp hroot with h | h
    · exact absurd h (div_ne_zero hL hN)
    · exact h
  exact on_line_of_cross_zero _ _ _ _ _ _ hN hc

/-- **Soundness of `bezier_by_line_intersections` (cubic).** -/
theorem bl_cubic_sound (b0x b0y b1x b1y b2x b2y b3x b3y l0x l0y l1x l1y L t : K)
    (hL : L ≠ 0) (hN : (l1x - l0x) * (l1x - l0x) + (l1y - l0y) * (l1y - l0y) ≠ 0)
    (hroot : Gen.C11.bl_cubic_c0 b0x b0y b1x b1y b2x b2y b3x b3y l0x l0y l1x l1y L * t ^ 3
      + Gen.C11.bl_cubic_c1 b0x b0y b1x b1y b2x b2y b3x b3y l0x l0y l1x l1y L * t ^ 2
      + Gen.C11.bl_cubic_c2 b0x b0y b1x b1y b2x b2y b3x b3y l0x l0y l1x l1y L * t
      + Gen.C11.bl_cubic_c3 b0x b0y b1x b1y b2x b2y b3x b3y l0x l0y l1x l1y L = 0) :
    Gen.C11.bl_cubic_px b0x b0y b1x b1y b2x b2y b3x b3y t
      = l0x + (l1x - l0x) * Gen.C11.bl_cubic_linet b0x b0y b1x b1y b2x b2y b3x b3y l0x l0y l1x l1y L t ∧
    Gen.C11.bl_cubic_py b0x b0y b1x b1y b2x b2y b3x b3y t
      = l0y + (l1y - l0y) * Gen.C11.bl_cubic_linet b0x b0y b1x b1y b2x b2y b3x b3y l0x l0y l1x l1y L t := by
  obtain ⟨h1, h2⟩ := bl_cubic_bridge b0x b0y b1x b1y b2x b2y b3x b3y l0x l0y l1x l1y L t hL hN
  rw [h1] at hroot
  rw [h2]
  have hc : (l1x - l0x) * (Gen.C11.bl_cubic_py b0x b0y b1x b1y b2x b2y b3x b3y t - l0y)
      - (l1y - l0y) * (Gen.C11.bl_cubic_px b0x b0y b1x b1y b2x b2y b3x b3y t - l0x) = 0 := by
    rcases mul_eq_zero.mp hroot with h | h
    · exact absurd h (div_ne_zero hL hN)
    · exact h
  exact on_line_of_cross_zero _ _ _ _ _ _ hN hc

end bezline


/-! ## Arc ∩ Bezier (the `u1transform` route of `Arc.intersect`) -/
section arcbez
variable {K : Type} [Field K]

/-- what `u1transform` computes, written from its definition: rotate `z − c` by `1/w`, divide by the radii -/
def u1x (wx wy cx cy rx zx zy : K) : K := ((zx - cx) * wx + (zy - cy) * wy) / (wx * wx + wy * wy) / rx
def u1y (wx wy cx cy ry zx zy : K) : K := ((zy - cy) * wx - (zx - cx) * wy) / (wx * wx + wy * wy) / ry

/-- the traced `u1transform(line.point(t))` is `u1x/u1y` of the Bernstein point, and the polynomial handed to
`polyroots01` IS `|u1transform(B(t))|² − 1` (Line) -/
theorem ab_line_bridge (b0x b0y b1x b1y wx wy cx cy rx ry t : K)
    (hw : wx * wx + wy * wy ≠ 0) (hrx : rx ≠ 0) (hry : ry ≠ 0) :
    Gen.C11.ab_line_c0 b0x b0y b1x b1y wx wy cx cy rx ry * t ^ 2
      + Gen.C11.ab_line_c1 b0x b0y b1x b1y wx wy cx cy rx ry * t
      + Gen.C11.ab_line_c2 b0x b0y b1x b1y wx wy cx cy rx ry
      = Gen.C11.ab_line_ux b0x b0y b1x b1y wx wy cx cy rx ry t ^ 2
        + Gen.C11.ab_line_uy b0x b0y b1x b1y wx wy cx cy rx ry t ^ 2 - 1 := by
  simp only [Gen.C11.ab_line_c0, Gen.C11.ab_line_c1, Gen.C11.ab_line_c2, Gen.C11.ab_line_ux, Gen.C11.ab_line_uy]
  field_simp
  ring

theorem ab_quad_bridge (b0x b0y b1x b1y b2x b2y wx wy cx cy rx ry t : K)
    (hw : wx * wx + wy * wy ≠ 0) (hrx : rx ≠ 0) (hry : ry ≠ 0) :
    Gen.C11.ab_quad_c0 b0x b0y b1x b1y b2x b2y wx wy cx cy rx ry * t ^ 4
      + Gen.C11.ab_quad_c1 b0x b0y b1x b1y b2x b2y wx wy cx cy rx ry * t ^ 3
      + Gen.C11.ab_quad_c2 b0x b0y b1x b1y b2x b2y wx wy cx cy rx ry * t ^ 2
      + Gen.C11.ab_quad_c3 b0x b0y b1x b1y b2x b2y wx wy cx cy rx ry * t
      + Gen.C11.ab_quad_c4 b0x b0y b1x b1y b2x b2y wx wy cx cy rx ry
      = Gen.C11.ab_quad_ux b0x b0y b1x b1y b2x b2y wx wy cx cy rx ry t ^ 2
        + Gen.C11.ab_quad_uy b0x b0y b1x b1y b2x b2y wx wy cx cy rx ry t ^ 2 - 1 := by
  simp only [Gen.C11.ab_quad_c0, Gen.C11.ab_quad_c1, Gen.C11.ab_quad_c2, Gen.C11.ab_quad_c3, Gen.C11.ab_quad_c4,
    Gen.C11.ab_quad_ux, Gen.C11.ab_quad_uy]
  field_simp
  ring

theorem ab_cubic_bridge (b0x b0y b1x b1y b2x b2y b3x b3y wx wy cx cy rx ry t : K)
    (hw : wx * wx + wy * wy ≠ 0) (hrx : rx ≠ 0) (hry : ry ≠ 0) :
    Gen.C11.ab_cubic_c0 b0x b0y b1x b1y b2x b2y b3x b3y wx wy cx cy rx ry * t ^ 6
      + Gen.C11.ab_cubic_c1 b0x b0y b1x b1y b2x b2y b3x b3y wx wy cx cy rx ry * t ^ 5
      + Gen.C11.ab_cubic_c2 b0x b0y b1x b1y b2x b2y b3x b3y wx wy cx cy rx ry * t ^ 4
      + Gen.C11.ab_cubic_c3 b0x b0y b1x b1y b2x b2y b3x b3y wx wy cx cy rx ry * t ^ 3
      + Gen.C11.ab_cubic_c4 b0x b0y b1x b1y b2x b2y b3x b3y wx wy cx cy rx ry * t ^ 2
      + Gen.C11.ab_cubic_c5 b0x b0y b1x b1y b2x b2y b3x b3y wx wy cx cy rx ry * t
      + Gen.C11.ab_cubic_c6 b0x b0y b1x b1y b2x b2y b3x b3y wx wy cx cy rx ry
      = Gen.C11.ab_cubic_ux b0x b0y b1x b1y b2x b2y b3x b3y wx wy cx cy rx ry t ^ 2
        + Gen.C11.ab_cubic_uy b0x b0y b1x b1y b2x b2y b3x b3y wx wy cx cy rx ry t ^ 2 - 1 := by
  simp only [Gen.C11.ab_cubic_c0, Gen.C11.ab_cubic_c1, Gen.C11.ab_cubic_c2, Gen.C11.ab_cubic_c3, Gen.C11.ab_cubic_c4,
    Gen.C11.ab_cubic_c5, Gen.C11.ab_cubic_c6, Gen.C11.ab_cubic_ux, Gen.C11.ab_cubic_uy]
  field_simp
  ring

/-- the traced `u1transform` of a cubic's point is `u1x/u1y` of that point (the same `bl_cubic_px/py` trace of
`CubicBezier.point` that C03 proves to be the Bernstein curve) -/
theorem ab_cubic_u_spec (b0x b0y b1x b1y b2x b2y b3x b3y wx wy cx cy rx ry t : K)
    (hw : wx * wx + wy * wy ≠ 0) (hrx : rx ≠ 0) (hry : ry ≠ 0) :
    Gen.C11.ab_cubic_ux b0x b0y b1x b1y b2x b2y b3x b3y wx wy cx cy rx ry t
      = u1x wx wy cx cy rx (Gen.C11.bl_cubic_px b0x b0y b1x b1y b2x b2y b3x b3y t) (Gen.C11.bl_cubic_py b0x b0y b1x b1y b2x b2y b3x b3y t) ∧
    Gen.C11.ab_cubic_uy b0x b0y b1x b1y b2x b2y b3x b3y wx wy cx cy rx ry t
      = u1y wx wy cx cy ry (Gen.C11.bl_cubic_px b0x b0y b1x b1y b2x b2y b3x b3y t) (Gen.C11.bl_cubic_py b0x b0y b1x b1y b2x b2y b3x b3y t) := by
  simp only [Gen.C11.ab_cubic_ux, Gen.C11.ab_cubic_uy, u1x, u1y, Gen.C11.bl_cubic_px, Gen.C11.bl_cubic_py]
  constructor <;> (field_simp; ring)

theorem ab_quad_u_spec (b0x b0y b1x b1y b2x b2y wx wy cx cy rx ry t : K)
    (hw : wx * wx + wy * wy ≠ 0) (hrx : rx ≠ 0) (hry : ry ≠ 0) :
    Gen.C11.ab_quad_ux b0x b0y b1x b1y b2x b2y wx wy cx cy rx ry t
      = u1x wx wy cx cy rx (Gen.C11.bl_quad_px b0x b0y b1x b1y b2x b2y t) (Gen.C11.bl_quad_py b0x b0y b1x b1y b2x b2y t) ∧
    Gen.C11.ab_quad_uy b0x b0y b1x b1y b2x b2y wx wy cx cy rx ry t
      = u1y wx wy cx cy ry (Gen.C11.bl_quad_px b0x b0y b1x b1y b2x b2y t) (Gen.C11.bl_quad_py b0x b0y b1x b1y b2x b2y t) := by
  simp only [Gen.C11.ab_quad_ux, Gen.C11.ab_quad_uy, u1x, u1y, Gen.C11.bl_quad_px, Gen.C11.bl_quad_py]
  constructor <;> (field_simp; ring)

theorem ab_line_u_spec (b0x b0y b1x b1y wx wy cx cy rx ry t : K)
    (hw : wx * wx + wy * wy ≠ 0) (hrx : rx ≠ 0) (hry : ry ≠ 0) :
    Gen.C11.ab_line_ux b0x b0y b1x b1y wx wy cx cy rx ry t
      = u1x wx wy cx cy rx (b0x + (b1x - b0x) * t) (b0y + (b1y - b0y) * t) ∧
    Gen.C11.ab_line_uy b0x b0y b1x b1y wx wy cx cy rx ry t
      = u1y wx wy cx cy ry (b0x + (b1x - b0x) * t) (b0y + (b1y - b0y) * t) := by
  simp only [Gen.C11.ab_line_ux, Gen.C11.ab_line_uy, u1x, u1y]
  constructor <;> (field_simp; ring)

/-- **A point whose `u1transform` has modulus 1 lies on the arc's ellipse** (centre `c`, radii `rx, ry`, axes
rotated by the unit complex `w`): this is what a root of the traced polynomial gives. -/
theorem on_ellipse_of_u1 (wx wy cx cy rx ry zx zy : K) (hw : wx * wx + wy * wy = 1) (hrx : rx ≠ 0) (hry : ry ≠ 0)
    (h : u1x wx wy cx cy rx zx zy ^ 2 + u1y wx wy cx cy ry zx zy ^ 2 - 1 = 0) :
    (((zx - cx) * wx + (zy - cy) * wy) / rx) ^ 2 + (((zy - cy) * wx - (zx - cx) * wy) / ry) ^ 2 = 1 := by
  simp only [u1x, u1y, hw, div_one] at h
  linear_combination h

/-- **The arc's point at eccentric angle `a` equals `z` as soon as `(cos a, sin a) = u1transform(z)`**:
`Arc.point(t) = c + w·(rx·cos a + i·ry·sin a)` with `a = radians(θ + t·δ)` — stated for arbitrary values
`ca, sa` of the cosine and sine, so it applies to the traced `Gen.C04.point_x/point_y`. -/
theorem arc_point_of_u1 (wx wy cx cy rx ry zx zy ca sa : K) (hw : wx * wx + wy * wy = 1) (hrx : rx ≠ 0) (hry : ry ≠ 0)
    (hc : ca = u1x wx wy cx cy rx zx zy) (hs : sa = u1y wx wy cx cy ry zx zy) :
    rx * wx * ca - ry * wy * sa + cx = zx ∧ rx * wy * ca + ry * wx * sa + cy = zy := by
  subst hc hs
  simp only [u1x, u1y, hw, div_one]
  constructor
  · field_simp
    linear_combination (zx - cx) * hw
  · field_simp
    linear_combination (zy - cy) * hw

end arcbez

/-- the same statement on the traced `Arc.point` of C04 (over ℝ, where that trace lives): if the cosine and sine of
the arc's angle at `t1` are the two components of `u1transform(z)`, then `Arc.point(t1) = z`. -/
theorem arc_point_traced_of_u1 (theta delta rx ry wx wy rot cx cy pi t1 zx zy : ℝ)
    (hw : wx * wx + wy * wy = 1) (hrx : rx ≠ 0) (hry : ry ≠ 0)
    (hc : Real.cos ((theta + t1 * delta) * pi / 180) = u1x wx wy cx cy rx zx zy)
    (hs : Real.sin ((theta + t1 * delta) * pi / 180) = u1y wx wy cx cy ry zx zy) :
    Gen.C04.point_x theta delta rx ry wx wy rot cx cy pi t1 = zx ∧
    Gen.C04.point_y theta delta rx ry wx wy rot cx cy pi t1 = zy := by
  simp only [Gen.C04.point_x, Gen.C04.point_y]
  exact arc_point_of_u1 wx wy cx cy rx ry zx zy _ _ hw hrx hry hc hs


/-! ## `Arc.phase2t` : phase ↦ parameter -/
section phase

/-- Python's floor, as a real number -/
noncomputable def flr (x : ℝ) : ℝ := (⌊x⌋ : ℝ)

theorem pmod_spec (a b : ℝ) (hb : 0 < b) :
    0 ≤ pmod flr a b ∧ pmod flr a b < b ∧ ∃ k : ℤ, pmod flr a b = a - b * k := by
  unfold pmod flr
  have h1 : (⌊a / b⌋ : ℝ) ≤ a / b := Int.floor_le _
  have h2 : a / b < ⌊a / b⌋ + 1 := Int.lt_floor_add_one _
  rw [le_div_iff₀ hb] at h1
  rw [div_lt_iff₀ hb] at h2
  refine ⟨by nlinarith, by nlinarith, ⌊a / b⌋, rfl⟩

/-- **`_deg` maps a phase into the window `[lower, lower + 360)` without changing it modulo 360°.** -/
theorem degIn_spec (pi : ℝ) (hpi : 0 < pi) (rads lower : ℝ) :
    lower ≤ degIn flr pi 180 360 2 rads lower ∧ degIn flr pi 180 360 2 rads lower < lower + 360 ∧
    ∃ k : ℤ, degIn flr pi 180 360 2 rads lower = rads * 180 / pi + 360 * k := by
  obtain ⟨m0, m1, j, mj⟩ := pmod_spec rads (2 * pi) (by linarith)
  have k1 : (⌊lower / 360⌋ : ℝ) ≤ lower / 360 := Int.floor_le _
  have k2 : lower / 360 < ⌊lower / 360⌋ + 1 := Int.lt_floor_add_one _
  rw [le_div_iff₀ (by norm_num)] at k1
  rw [div_lt_iff₀ (by norm_num)] at k2
  have d0 : 0 ≤ pmod flr rads (2 * pi) * 180 / pi := by positivity
  have d1 : pmod flr rads (2 * pi) * 180 / pi < 360 := by
    rw [div_lt_iff₀ hpi]; nlinarith
  have dj : pmod flr rads (2 * pi) * 180 / pi = rads * 180 / pi - 360 * j := by
    rw [mj]; field_simp; ring
  unfold degIn
  simp only
  have hfl : flr (lower / 360) = (⌊lower / 360⌋ : ℝ) := rfl
  rw [hfl]
  split
  · rename_i hlt
    refine ⟨by linarith, by linarith, ⌊lower / 360⌋ - j + 1, ?_⟩
    rw [dj]; push_cast; ring
  · rename_i hge
    refine ⟨by linarith, by linarith, ⌊lower / 360⌋ - j, ?_⟩
    rw [dj]; push_cast; ring

/-- **`phase2t` returns the non-negative parameter, less than one full turn away, whose angle is the phase.**
With `t = phase2t(ψ)`: `t ≥ 0`, `|t·δ| < 360`, and `radians(θ + t·δ) = ψ + 2πk` for an integer `k`; hence the
cosine and sine of the arc's angle at `t` are `cos ψ` and `sin ψ`.  (`t ≤ 1` is the caller's filter.) -/
theorem phase2t_spec (theta delta psi : ℝ) (hd : delta ≠ 0) :
    let t := phase2t flr Real.pi 180 360 2 theta delta psi
    0 ≤ t ∧ |t * delta| < 360 ∧ ∃ k : ℤ, (theta + t * delta) * Real.pi / 180 = psi + 2 * Real.pi * k := by
  intro t
  have hpi := Real.pi_pos
  have htd : t * delta = (if 0 < delta then degIn flr Real.pi 180 360 2 psi theta
              else -(degIn flr Real.pi 180 360 2 (-psi) (-theta))) - theta := by
    show phase2t flr Real.pi 180 360 2 theta delta psi * delta = _
    unfold phase2t
    simp only
    field_simp
  by_cases hpos : 0 < delta
  · rw [if_pos hpos] at htd
    obtain ⟨a, b, k, hk⟩ := degIn_spec Real.pi hpi psi theta
    refine ⟨?_, ?_, k, ?_⟩
    · have : 0 ≤ t * delta := by rw [htd]; linarith
      exact le_of_mul_le_mul_right (by simpa using this) hpos
    · rw [htd, abs_lt]; constructor <;> linarith
    · rw [htd, hk]; field_simp; ring
  · rw [if_neg hpos] at htd
    have hneg : delta < 0 := lt_of_le_of_ne (not_lt.mp hpos) hd
    obtain ⟨a, b, k, hk⟩ := degIn_spec Real.pi hpi (-psi) (-theta)
    refine ⟨?_, ?_, -k, ?_⟩
    · have : t * delta ≤ 0 := by rw [htd]; linarith
      by_contra hneg'
      push_neg at hneg'
      have := mul_pos_of_neg_of_neg hneg' hneg
      linarith
    · rw [htd, abs_lt]; constructor <;> linarith
    · rw [htd, hk]; push_cast; field_simp; ring

theorem phase2t_cos_sin (theta delta psi : ℝ) (hd : delta ≠ 0) :
    Real.cos ((theta + phase2t flr Real.pi 180 360 2 theta delta psi * delta) * Real.pi / 180) = Real.cos psi ∧
    Real.sin ((theta + phase2t flr Real.pi 180 360 2 theta delta psi * delta) * Real.pi / 180) = Real.sin psi := by
  obtain ⟨_, _, k, hk⟩ := phase2t_spec theta delta psi hd
  rw [hk]
  constructor
  · rw [show psi + 2 * Real.pi * (k : ℝ) = psi + (k : ℝ) * (2 * Real.pi) by ring]; exact Real.cos_add_int_mul_two_pi psi k
  · rw [show psi + 2 * Real.pi * (k : ℝ) = psi + (k : ℝ) * (2 * Real.pi) by ring]; exact Real.sin_add_int_mul_two_pi psi k

/-- **Soundness of the `u1transform` route, end to end**: let `z` be a point whose `u1transform` is the unit
complex number of phase `ψ` (i.e. a root of the traced polynomial, `on_ellipse_of_u1`), on an arc with `δ ≠ 0`.
Then the arc's traced `point` at `t1 = phase2t(ψ)` IS `z`. -/
theorem arc_bezier_sound (theta delta rx ry wx wy rot cx cy zx zy psi : ℝ)
    (hw : wx * wx + wy * wy = 1) (hrx : rx ≠ 0) (hry : ry ≠ 0) (hd : delta ≠ 0)
    (hux : u1x wx wy cx cy rx zx zy = Real.cos psi) (huy : u1y wx wy cx cy ry zx zy = Real.sin psi) :
    Gen.C04.point_x theta delta rx ry wx wy rot cx cy Real.pi (phase2t flr Real.pi 180 360 2 theta delta psi) = zx ∧
    Gen.C04.point_y theta delta rx ry wx wy rot cx cy Real.pi (phase2t flr Real.pi 180 360 2 theta delta psi) = zy := by
  obtain ⟨hc, hs⟩ := phase2t_cos_sin theta delta psi hd
  exact arc_point_traced_of_u1 theta delta rx ry wx wy rot cx cy Real.pi _ zx zy hw hrx hry (hc.trans hux.symm) (hs.trans huy.symm)

example : 0 ≤ phase2t flr Real.pi 180 360 2 30 (-200) (1 / 2) := (phase2t_spec 30 (-200) (1 / 2) (by norm_num)).1

end phase


/-! ## Two circles (`Arc.intersect(Arc)`, both circular and unrotated) -/
section circles
variable {K : Type} [Field K]

/-- **Both candidate points lie on both circles**: with `d² = |p1 − p0|²`, `d ≠ 0` and `h² = r0² − a²` (the traced
argument of the square root), the traced `p30` and `p31` are at distance `r0` from `p0` and `r1` from `p1`. -/
theorem cc_points_on_both (p0x p0y p1x p1y r0 r1 d h : K) (h2 : (2 : K) ≠ 0) (hd : d ≠ 0)
    (hdd : d * d = (p1x - p0x) * (p1x - p0x) + (p1y - p0y) * (p1y - p0y))
    (hh : h * h = Gen.C11.cc_hsq p0x p0y p1x p1y r0 r1 d) :
    (Gen.C11.cc_p30x p0x p0y p1x p1y r0 r1 d h - p0x) ^ 2 + (Gen.C11.cc_p30y p0x p0y p1x p1y r0 r1 d h - p0y) ^ 2 = r0 ^ 2 ∧
    (Gen.C11.cc_p30x p0x p0y p1x p1y r0 r1 d h - p1x) ^ 2 + (Gen.C11.cc_p30y p0x p0y p1x p1y r0 r1 d h - p1y) ^ 2 = r1 ^ 2 ∧
    (Gen.C11.cc_p31x p0x p0y p1x p1y r0 r1 d h - p0x) ^ 2 + (Gen.C11.cc_p31y p0x p0y p1x p1y r0 r1 d h - p0y) ^ 2 = r0 ^ 2 ∧
    (Gen.C11.cc_p31x p0x p0y p1x p1y r0 r1 d h - p1x) ^ 2 + (Gen.C11.cc_p31y p0x p0y p1x p1y r0 r1 d h - p1y) ^ 2 = r1 ^ 2 := by
  simp only [Gen.C11.cc_hsq] at hh
  simp only [Gen.C11.cc_p30x, Gen.C11.cc_p30y, Gen.C11.cc_p31x, Gen.C11.cc_p31y]
  obtain ⟨a, ha⟩ : ∃ a, a = (r0 ^ 2 - r1 ^ 2 + d ^ 2) / (2 * d) := ⟨_, rfl⟩
  rw [← ha] at hh ⊢
  have ha' : a * (2 * d) = r0 ^ 2 - r1 ^ 2 + d ^ 2 := by rw [ha]; exact div_mul_cancel₀ _ (mul_ne_zero h2 hd)
  obtain ⟨ux, hux⟩ : ∃ ux, ux = (p1x - p0x) / d := ⟨_, rfl⟩
  obtain ⟨uy, huy⟩ : ∃ uy, uy = (p1y - p0y) / d := ⟨_, rfl⟩
  have eux : p1x - p0x = ux * d := by rw [hux]; field_simp
  have euy : p1y - p0y = uy * d := by rw [huy]; field_simp
  have hu : ux * ux + uy * uy = 1 := by
    have : (ux * d) * (ux * d) + (uy * d) * (uy * d) = d * d := by rw [← eux, ← euy, hdd]
    have hd2 : d * d ≠ 0 := mul_ne_zero hd hd
    have e : (ux * ux + uy * uy) * (d * d) = 1 * (d * d) := by linear_combination this
    exact mul_right_cancel₀ hd2 e
  have r1x : a * (p1x - p0x) / d = a * ux := by rw [hux]; ring
  have r1y : a * (p1y - p0y) / d = a * uy := by rw [huy]; ring
  have r2x : h * (p1x - p0x) / d = h * ux := by rw [hux]; ring
  have r2y : h * (p1y - p0y) / d = h * uy := by rw [huy]; ring
  rw [r1x, r1y, r2x, r2y]
  have p1xe : p1x = p0x + ux * d := by linear_combination eux
  have p1ye : p1y = p0y + uy * d := by linear_combination euy
  refine ⟨?_, ?_, ?_, ?_⟩
  · linear_combination (a ^ 2 + h ^ 2) * hu + hh
  · rw [p1xe, p1ye]
    linear_combination (a ^ 2 + h ^ 2 - 2 * a * d + d ^ 2) * hu + hh - ha'
  · linear_combination (a ^ 2 + h ^ 2) * hu + hh
  · rw [p1xe, p1ye]
    linear_combination (a ^ 2 + h ^ 2 - 2 * a * d + d ^ 2) * hu + hh - ha'

end circles

/-! ## Unrotated arc ∩ non-vertical line: the closed-form candidates -/
section arcline
variable {K : Type} [Field K]

/-- **The candidates `(x1, y1)` and `(x2, y2)` of `Arc.intersect(Line)` lie on the ellipse and on the line's carrier**
(`s² =` the traced discriminant, the line is not vertical, `a, b ≠ 0`, `a² m² + b² ≠ 0`): these are the points handed to
the two `point_to_t` range filters, so every intersection that is reported has been through an exact candidate and no
intersection of the carrier with the full ellipse is missing from the candidates. -/
theorem al_candidates_on_both (a b cx cy l0x l0y l1x l1y s : K) (ha : a ≠ 0) (hb : b ≠ 0) (hdx : l1x - l0x ≠ 0)
    (hD : a * a * (((l1y - l0y) / (l1x - l0x)) * ((l1y - l0y) / (l1x - l0x))) + b * b ≠ 0)
    (hs : s * s = Gen.C11.al_disc a b cx cy l0x l0y l1x l1y) :
    let m := (l1y - l0y) / (l1x - l0x)
    ((Gen.C11.al_p11x a b cx cy l0x l0y l1x l1y s - cx) ^ 2 / a ^ 2 + (Gen.C11.al_p11y a b cx cy l0x l0y l1x l1y s - cy) ^ 2 / b ^ 2 = 1 ∧
     Gen.C11.al_p11y a b cx cy l0x l0y l1x l1y s - l0y = m * (Gen.C11.al_p11x a b cx cy l0x l0y l1x l1y s - l0x)) ∧
    ((Gen.C11.al_p22x a b cx cy l0x l0y l1x l1y s - cx) ^ 2 / a ^ 2 + (Gen.C11.al_p22y a b cx cy l0x l0y l1x l1y s - cy) ^ 2 / b ^ 2 = 1 ∧
     Gen.C11.al_p22y a b cx cy l0x l0y l1x l1y s - l0y = m * (Gen.C11.al_p22x a b cx cy l0x l0y l1x l1y s - l0x)) := by
  intro m
  simp only [Gen.C11.al_disc] at hs
  simp only [Gen.C11.al_p11x, Gen.C11.al_p11y, Gen.C11.al_p22x, Gen.C11.al_p22y]
  have e1 : (l1y - cy) - (l0y - cy) = l1y - l0y := by ring
  have e2 : (l1x - cx) - (l0x - cx) = l1x - l0x := by ring
  rw [e1, e2] at hs ⊢
  obtain ⟨mm, hm⟩ : ∃ mm, mm = (l1y - l0y) / (l1x - l0x) := ⟨_, rfl⟩
  have hm' : m = mm := by rw [hm]
  rw [hm']
  rw [← hm] at hs hD ⊢
  obtain ⟨c, hc⟩ : ∃ c, c = -mm * (l0x - cx) + (l0y - cy) := ⟨_, rfl⟩
  rw [← hc] at hs ⊢
  obtain ⟨D, hDd⟩ : ∃ D, D = a * a * mm * mm + b * b := ⟨_, rfl⟩
  have hD' : D ≠ 0 := by rw [hDd]; intro h0; apply hD; linear_combination h0
  have hs' : s * s = D - c * c := by rw [hDd]; linear_combination hs
  have q1 : a * a * mm * mm + b * b = D := hDd.symm
  rw [q1]
  refine ⟨⟨?_, ?_⟩, ⟨?_, ?_⟩⟩
  · field_simp
    linear_combination (a ^ 2 * b ^ 2 * D) * hs' - (a ^ 2 * b ^ 2 * (c ^ 2 + s ^ 2)) * hDd
  · field_simp
    linear_combination (-c) * hDd + D * hc
  · field_simp
    linear_combination (a ^ 2 * b ^ 2 * D) * hs' - (a ^ 2 * b ^ 2 * (c ^ 2 + s ^ 2)) * hDd
  · field_simp
    linear_combination (-c) * hDd + D * hc

/-- **Vertical line** (`p[1].real == 0`): with `s² =` the traced discriminant `1 − c²/a²`, both candidates
`(c, ±b·s) + centre` lie on the ellipse and on the line `x = lx`. -/
theorem alv_candidates_on_both (a b cx cy lx l0y l1y s : K) (ha : a ≠ 0) (hb : b ≠ 0)
    (hs : s * s = Gen.C11.alv_disc a b cx cy lx l0y l1y) :
    ((Gen.C11.alv_p1x a b cx cy lx l0y l1y s - cx) ^ 2 / a ^ 2 + (Gen.C11.alv_p1y a b cx cy lx l0y l1y s - cy) ^ 2 / b ^ 2 = 1 ∧
     Gen.C11.alv_p1x a b cx cy lx l0y l1y s = lx) ∧
    ((Gen.C11.alv_p2x a b cx cy lx l0y l1y s - cx) ^ 2 / a ^ 2 + (Gen.C11.alv_p2y a b cx cy lx l0y l1y s - cy) ^ 2 / b ^ 2 = 1 ∧
     Gen.C11.alv_p2x a b cx cy lx l0y l1y s = lx) := by
  simp only [Gen.C11.alv_disc] at hs
  simp only [Gen.C11.alv_p1x, Gen.C11.alv_p1y, Gen.C11.alv_p2x, Gen.C11.alv_p2y]
  have hs' : s * s * (a * a) = a * a - (lx - cx) * (lx - cx) := by
    rw [hs]; field_simp
  refine ⟨⟨?_, by ring⟩, ⟨?_, by ring⟩⟩
  · field_simp
    linear_combination (b ^ 2) * hs'
  · field_simp
    linear_combination (b ^ 2) * hs'

/-- the tangent case of the vertical branch (`discriminant == 0`, `y_values = [0]`): the single candidate
`(c, 0) + centre` is on the ellipse. -/
theorem alv_tangent_on_ellipse (a b cx cy lx l0y l1y : K) (ha : a ≠ 0) (hb : b ≠ 0)
    (h0 : Gen.C11.alv_disc a b cx cy lx l0y l1y = 0) :
    (Gen.C11.alv_p1x a b cx cy lx l0y l1y 0 - cx) ^ 2 / a ^ 2 + (Gen.C11.alv_p1y a b cx cy lx l0y l1y 0 - cy) ^ 2 / b ^ 2 = 1 := by
  have := (alv_candidates_on_both a b cx cy lx l0y l1y 0 ha hb (by rw [h0]; ring)).1.1
  exact this

end arcline

/-! ## Line.point_to_t -/
section linept
variable {K : Type} [Field K]

/-- **`Line.point_to_t` is sound**: when the imaginary part it tests is exactly 0, the returned `t` satisfies
`start + (end − start)·t = point`. -/
theorem lpt_sound (sx sy ex ey zx zy : K)
    (hN : (ex - sx) * (ex - sx) + (ey - sy) * (ey - sy) ≠ 0)
    (him : Gen.C11.lpt_im sx sy ex ey zx zy = 0) :
    sx + (ex - sx) * Gen.C11.lpt_t sx sy ex ey zx zy = zx ∧ sy + (ey - sy) * Gen.C11.lpt_t sx sy ex ey zx zy = zy := by
  simp only [Gen.C11.lpt_im] at him
  simp only [Gen.C11.lpt_t]
  obtain ⟨N, hNd⟩ : ∃ N, N = (ex - sx) * (ex - sx) + (ey - sy) * (ey - sy) := ⟨_, rfl⟩
  rw [← hNd] at hN him ⊢
  have hc : (zy - sy) * (ex - sx) - (zx - sx) * (ey - sy) = 0 := by
    rcases div_eq_zero_iff.mp him with h | h
    · exact h
    · exact absurd h hN
  have k1 : (ex - sx) * ((zx - sx) * (ex - sx) + (zy - sy) * (ey - sy)) = (zx - sx) * N := by
    rw [hNd]; linear_combination (ey - sy) * hc
  have k2 : (ey - sy) * ((zx - sx) * (ex - sx) + (zy - sy) * (ey - sy)) = (zy - sy) * N := by
    rw [hNd]; linear_combination (-(ex - sx)) * hc
  constructor
  · rw [← mul_div_assoc, k1, mul_div_assoc, div_self hN]; ring
  · rw [← mul_div_assoc, k2, mul_div_assoc, div_self hN]; ring

end linept

end SvgVerif.Props.C11
