import SvgVerif.Model.Area
import SvgVerif.Spec.Bernstein
import SvgVerif.Lemmas.PolyCalculus
import Mathlib.MeasureTheory.Integral.IntervalIntegral.FundThmCalculus
import Mathlib.Tactic.Ring
import Mathlib.Tactic.FieldSimp
import Mathlib.Tactic.NormNum
/-! # C14 — the per-segment value of `Path.area()` IS the Green integral `∫₀¹ x(t) y'(t) dt`

`Model/Area.lean` writes the contribution of one segment in closed form (what
`real(seg.poly()) * imag(seg.poly()).deriv()` integrates to; tied to the code by the exact correspondence and
by the traced shapes).  Here that closed form is proved equal to the interval integral of `x·y'` over
`[0,1]` (Mathlib's `intervalIntegral`, derivative `deriv`), with `x`, `y` the Bernstein curves
(`Spec.bernstein`) of the control coordinates: `line_segArea_is_green`, `quad_segArea_is_green`,
`cubic_segArea_is_green`.  So for a closed path of such segments `area()` is exactly Green's
`∮ x dy` (the sum over the segments, `pathArea_eq_sum`).

Method: an explicit polynomial antiderivative (coefficients generated once with a computer algebra system,
checked here by `ring`) and the fundamental theorem of calculus. -/
namespace SvgVerif.Props.C14Green
set_option linter.unusedVariables false
open SvgVerif SvgVerif.Spec SvgVerif.Model.Area intervalIntegral

/-- FTC for a polynomial antiderivative given as a coefficient list -/
theorem integral_of_antiderivative (f : ℝ → ℝ) (Fc : List ℝ) (h : ∀ t, polyEval (polyDeriv Fc) t = f t) :
    ∫ t in (0 : ℝ)..1, f t = polyEval Fc 1 - polyEval Fc 0 := by
  have hd : ∀ t ∈ Set.uIcc (0 : ℝ) 1, HasDerivAt (polyEval Fc) (f t) t := by
    intro t _
    rw [← h t]; exact hasDerivAt_polyEval Fc t
  have hcont : Continuous f := by
    have : f = polyEval (polyDeriv Fc) := by funext t; exact (h t).symm
    rw [this]
    exact continuous_iff_continuousAt.mpr fun t => (hasDerivAt_polyEval (polyDeriv Fc) t).continuousAt
  exact integral_eq_sub_of_hasDerivAt hd (hcont.intervalIntegrable 0 1)

theorem bern2 (a b : ℝ) : Spec.bernstein [a, b] = polyEval [b - a, a] := by
  funext t; simp [Spec.bernstein, Spec.bernsteinAux, polyEval]; ring
theorem bern3 (a b c : ℝ) : Spec.bernstein [a, b, c] = polyEval [a - 2 * b + c, 2 * (b - a), a] := by
  funext t; simp [Spec.bernstein, Spec.bernsteinAux, polyEval]; ring
theorem bern4 (a b c d : ℝ) :
    Spec.bernstein [a, b, c, d] = polyEval [-a + 3 * (b - c) + d, 3 * (a - 2 * b + c), 3 * (b - a), a] := by
  funext t; simp [Spec.bernstein, Spec.bernsteinAux, polyEval]; ring

noncomputable def lineF (x0 x1 y0 y1 : ℝ) : List ℝ :=
  [(x0*y0 - x0*y1 - x1*y0 + x1*y1) / 2,
   (-x0*y0 + x0*y1) / 1,
   0]

noncomputable def quadF (x0 x1 x2 y0 y1 y2 : ℝ) : List ℝ :=
  [(2*x0*y0 - 4*x0*y1 + 2*x0*y2 - 4*x1*y0 + 8*x1*y1 - 4*x1*y2 + 2*x2*y0 - 4*x2*y1 + 2*x2*y2) / 4,
   (-6*x0*y0 + 10*x0*y1 - 4*x0*y2 + 8*x1*y0 - 12*x1*y1 + 4*x1*y2 - 2*x2*y0 + 2*x2*y1) / 3,
   (6*x0*y0 - 8*x0*y1 + 2*x0*y2 - 4*x1*y0 + 4*x1*y1) / 2,
   (-2*x0*y0 + 2*x0*y1) / 1,
   0]

noncomputable def cubicF (x0 x1 x2 x3 y0 y1 y2 y3 : ℝ) : List ℝ :=
  [(3*x0*y0 - 9*x0*y1 + 9*x0*y2 - 3*x0*y3 - 9*x1*y0 + 27*x1*y1 - 27*x1*y2 + 9*x1*y3 + 9*x2*y0 - 27*x2*y1 + 27*x2*y2 - 9*x2*y3 - 3*x3*y0 + 9*x3*y1 - 9*x3*y2 + 3*x3*y3) / 6,
   (-15*x0*y0 + 39*x0*y1 - 33*x0*y2 + 9*x0*y3 + 36*x1*y0 - 90*x1*y1 + 72*x1*y2 - 18*x1*y3 - 27*x2*y0 + 63*x2*y1 - 45*x2*y2 + 9*x2*y3 + 6*x3*y0 - 12*x3*y1 + 6*x3*y2) / 5,
   (30*x0*y0 - 66*x0*y1 + 45*x0*y2 - 9*x0*y3 - 54*x1*y0 + 108*x1*y1 - 63*x1*y2 + 9*x1*y3 + 27*x2*y0 - 45*x2*y1 + 18*x2*y2 - 3*x3*y0 + 3*x3*y1) / 4,
   (-30*x0*y0 + 54*x0*y1 - 27*x0*y2 + 3*x0*y3 + 36*x1*y0 - 54*x1*y1 + 18*x1*y2 - 9*x2*y0 + 9*x2*y1) / 3,
   (15*x0*y0 - 21*x0*y1 + 6*x0*y2 - 9*x1*y0 + 9*x1*y1) / 2,
   (-3*x0*y0 + 3*x0*y1) / 1,
   0]

/-- **Line**: `segArea = ∫₀¹ x(t) y'(t) dt` -/
theorem line_segArea_is_green (x0 y0 x1 y1 : ℝ) :
    ∫ t in (0 : ℝ)..1, Spec.bernstein [x0, x1] t * deriv (Spec.bernstein [y0, y1]) t
      = segArea (.line (x0, y0) (x1, y1)) := by
  rw [integral_of_antiderivative _ (lineF x0 x1 y0 y1)]
  · simp only [lineF, polyEval, segArea]; norm_num; ring
  · intro t
    rw [bern2, bern2, deriv_polyEval]
    simp only [lineF, polyDeriv, polyEval, List.length]
    push_cast; ring

/-- **QuadraticBezier**: `segArea = ∫₀¹ x(t) y'(t) dt` -/
theorem quad_segArea_is_green (x0 y0 x1 y1 x2 y2 : ℝ) :
    ∫ t in (0 : ℝ)..1, Spec.bernstein [x0, x1, x2] t * deriv (Spec.bernstein [y0, y1, y2]) t
      = segArea (.quad (x0, y0) (x1, y1) (x2, y2)) := by
  rw [integral_of_antiderivative _ (quadF x0 x1 x2 y0 y1 y2)]
  · simp only [quadF, polyEval, segArea]; norm_num; ring
  · intro t
    rw [bern3, bern3, deriv_polyEval]
    simp only [quadF, polyDeriv, polyEval, List.length]
    push_cast; ring

/-- **CubicBezier**: `segArea = ∫₀¹ x(t) y'(t) dt` -/
theorem cubic_segArea_is_green (x0 y0 x1 y1 x2 y2 x3 y3 : ℝ) :
    ∫ t in (0 : ℝ)..1, Spec.bernstein [x0, x1, x2, x3] t * deriv (Spec.bernstein [y0, y1, y2, y3]) t
      = segArea (.cubic (x0, y0) (x1, y1) (x2, y2) (x3, y3)) := by
  rw [integral_of_antiderivative _ (cubicF x0 x1 x2 x3 y0 y1 y2 y3)]
  · simp only [cubicF, polyEval, segArea]; norm_num; ring
  · intro t
    rw [bern4, bern4, deriv_polyEval]
    simp only [cubicF, polyDeriv, polyEval, List.length]
    push_cast; ring

end SvgVerif.Props.C14Green
