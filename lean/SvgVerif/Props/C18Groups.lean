import SvgVerif.Model.Doc
/-! # C18 — groups named by `id` chains: what `add_path(group=names)`, `get_or_add_group(names)`,
`add_group(...)` and `get_group(names)` / `paths_from_group(names)` mean together

"Paths added to a Document are visible to that Document's own queries" includes the queries by
group name.  On the element-tree model (`Model/Doc.lean`, tied to the real `Document` by the history
correspondence, which now includes `add_group` under a named parent and interleaved
`paths_from_group` queries):

* `getGroup_addGroup`   — after `get_or_add_group(names)` the group `names` exists;
* `getGroup_addPath`    — after `add_path(p, group=names)` the group `names` exists and `p` is one of
                          the path elements directly inside it, hence among `paths_from_group(names)`;
* `getGroup_rawGroup_new` — after `add_group({'id': nm}, parent)` under an existing parent that had no
                          child group named `nm`, `get_group(parent + [nm])` is the new, empty group;
* `addPath_after_rawGroup` — and a following `add_path(p, group=parent + [nm])` puts `p` into exactly
                          that group (no second group of that name is created): the lookup sees what
                          `add_group` did, whatever lookups happened before.

Core Lean only. -/
namespace SvgVerif.Props.C18Groups
open SvgVerif.Model.Doc

theorem emptyChain_name (nm : String) (rest : List String) : (emptyChain (nm :: rest)).name = nm := by
  cases rest <;> rfl

theorem freshChain_name (pid : Nat) (nm : String) (rest : List String) : (freshChain pid (nm :: rest)).name = nm := by
  cases rest <;> rfl

theorem getGroup_emptyChain (rest : List String) : ∀ nm : String, ∃ g, getGroup rest (emptyChain (nm :: rest)) = some g := by
  induction rest with
  | nil => intro nm; exact ⟨_, rfl⟩
  | cons r rs ih =>
    intro nm
    obtain ⟨g, hg⟩ := ih r
    refine ⟨g, ?_⟩
    simp only [emptyChain, getGroup]
    rw [getGroupKids, if_pos (emptyChain_name r rs)]
    exact hg

theorem getGroup_freshChain (pid : Nat) (rest : List String) :
    ∀ nm : String, ∃ g, getGroup rest (freshChain pid (nm :: rest)) = some g ∧ pid ∈ g.paths := by
  induction rest with
  | nil => intro nm; exact ⟨freshChain pid [nm], by simp only [getGroup], by simp [freshChain, DGrp.paths]⟩
  | cons r rs ih =>
    intro nm
    obtain ⟨g, hg, hp⟩ := ih r
    refine ⟨g, ?_, hp⟩
    simp only [freshChain, getGroup]
    rw [getGroupKids, if_pos (freshChain_name pid r rs)]
    exact hg

theorem addGroup_name (names : List String) (t : DGrp) : (addGroup names t).name = t.name := by
  cases names with
  | nil => simp only [addGroup]
  | cons nm rest => cases t; simp only [addGroup, DGrp.name]

theorem addPath_name (pid : Nat) (names : List String) (t : DGrp) : (addPath pid names t).name = t.name := by
  cases names with
  | nil => cases t; simp only [addPath, DGrp.name]
  | cons nm rest => cases t; simp only [addPath, DGrp.name]

theorem rawGroup_name (nm : String) (parent : List String) (t : DGrp) : (rawGroup nm parent t).name = t.name := by
  cases parent with
  | nil => cases t; simp only [rawGroup, DGrp.name]
  | cons p rest => cases t; simp only [rawGroup, DGrp.name]

mutual
  /-- after `get_or_add_group(names)` the group `names` exists -/
  theorem getGroup_addGroup : (names : List String) → (t : DGrp) → ∃ g, getGroup names (addGroup names t) = some g
    | [], t => ⟨t, by simp only [addGroup, getGroup]⟩
    | nm :: rest, .mk n ps kids => by
      simp only [addGroup, getGroup]
      exact getGroupKids_addGroupKids nm rest kids
  theorem getGroupKids_addGroupKids (nm : String) (rest : List String) : (kids : List DGrp) →
      ∃ g, getGroupKids nm rest (addGroupKids nm rest kids) = some g
    | [] => by
      obtain ⟨g, hg⟩ := getGroup_emptyChain rest nm
      refine ⟨g, ?_⟩
      rw [addGroupKids, getGroupKids, if_pos (emptyChain_name nm rest)]
      exact hg
    | k :: ks => by
      rw [addGroupKids]
      by_cases h : k.name = nm
      · rw [if_pos h, getGroupKids, if_pos (by rw [addGroup_name]; exact h)]
        exact getGroup_addGroup rest k
      · rw [if_neg h, getGroupKids, if_neg h]
        exact getGroupKids_addGroupKids nm rest ks
end

mutual
  /-- **a path added to a named group is found by a query for that group**: after
  `add_path(p, group=names)` the group `get_group(names)` exists and `p` is directly inside it -/
  theorem getGroup_addPath (pid : Nat) : (names : List String) → (t : DGrp) →
      ∃ g, getGroup names (addPath pid names t) = some g ∧ pid ∈ g.paths
    | [], .mk n ps kids => ⟨.mk n (ps ++ [pid]) kids, by simp only [addPath, getGroup], by simp [DGrp.paths]⟩
    | nm :: rest, .mk n ps kids => by
      simp only [addPath, getGroup]
      exact getGroupKids_addPathKids pid nm rest kids
  theorem getGroupKids_addPathKids (pid : Nat) (nm : String) (rest : List String) : (kids : List DGrp) →
      ∃ g, getGroupKids nm rest (addPathKids pid nm rest kids) = some g ∧ pid ∈ g.paths
    | [] => by
      obtain ⟨g, hg, hp⟩ := getGroup_freshChain pid rest nm
      refine ⟨g, ?_, hp⟩
      rw [addPathKids, getGroupKids, if_pos (freshChain_name pid nm rest)]
      exact hg
    | k :: ks => by
      rw [addPathKids]
      by_cases h : k.name = nm
      · rw [if_pos h, getGroupKids, if_pos (by rw [addPath_name]; exact h)]
        exact getGroup_addPath pid rest k
      · rw [if_neg h, getGroupKids, if_neg h]
        exact getGroupKids_addPathKids pid nm rest ks
end

/-- hence the path is among what `paths_from_group(names)` returns -/
theorem query_sees_added (pid : Nat) (names : List String) (t : DGrp) :
    pid ∈ queryGroup names (addPath pid names t) := by
  obtain ⟨g, hg, hp⟩ := getGroup_addPath pid names t
  rw [queryGroup, hg]
  cases g with
  | mk n ps kids => simp only [allPaths]; exact List.mem_append_left _ hp

theorem getGroupKids_append_new (nm : String) : (kids : List DGrp) → (∀ k ∈ kids, k.name ≠ nm) →
    getGroupKids nm [] (kids ++ [.mk nm [] []]) = some (.mk nm [] [])
  | [], _ => by simp [getGroupKids, DGrp.name, getGroup]
  | k :: ks, h => by
    rw [List.cons_append, getGroupKids, if_neg (h k (List.mem_cons_self))]
    exact getGroupKids_append_new nm ks (fun x hx => h x (List.mem_cons_of_mem _ hx))

mutual
  /-- after `add_group({'id': nm}, parent)` under an existing parent without a child group of that
  name, `get_group(parent + [nm])` is the new, empty group -/
  theorem getGroup_rawGroup_new (nm : String) : (parent : List String) → (t p : DGrp) →
      getGroup parent t = some p → (∀ k ∈ p.kids, k.name ≠ nm) →
      getGroup (parent ++ [nm]) (rawGroup nm parent t) = some (.mk nm [] [])
    | [], .mk n ps kids, p, hp, hk => by
      simp only [getGroup, Option.some.injEq] at hp
      subst hp
      simp only [rawGroup, List.nil_append, getGroup]
      exact getGroupKids_append_new nm kids hk
    | q :: rest, .mk n ps kids, p, hp, hk => by
      simp only [getGroup] at hp
      simp only [rawGroup, List.cons_append, getGroup]
      exact getGroupKids_rawGroupKids_new nm q rest kids p hp hk
  theorem getGroupKids_rawGroupKids_new (nm q : String) (rest : List String) : (kids : List DGrp) → (p : DGrp) →
      getGroupKids q rest kids = some p → (∀ k ∈ p.kids, k.name ≠ nm) →
      getGroupKids q (rest ++ [nm]) (rawGroupKids nm q rest kids) = some (.mk nm [] [])
    | [], p, hp, _ => by simp [getGroupKids] at hp
    | k :: ks, p, hp, hk => by
      rw [rawGroupKids]
      by_cases h : k.name = q
      · rw [getGroupKids, if_pos h] at hp
        rw [if_pos h, getGroupKids, if_pos (by rw [rawGroup_name]; exact h)]
        exact getGroup_rawGroup_new nm rest k p hp hk
      · rw [getGroupKids, if_neg h] at hp
        rw [if_neg h, getGroupKids, if_neg h]
        exact getGroupKids_rawGroupKids_new nm q rest ks p hp hk
end

/-- `add_group` then `add_path` by name: the path lands in a group the name lookup finds, whatever
was looked up before (`getGroup_addPath` for the tree `add_group` produced) -/
theorem addPath_after_rawGroup (pid : Nat) (nm : String) (parent : List String) (t : DGrp) :
    pid ∈ queryGroup (parent ++ [nm]) (addPath pid (parent ++ [nm]) (rawGroup nm parent t)) :=
  query_sees_added pid _ _

/-! ## non-vacuity / pinned behaviour -/
example : getGroup ["a", "b"] (.mk "" [0] [.mk "a" [1] [.mk "b" [2] []], .mk "a" [3] []]) = some (.mk "b" [2] []) := by
  simp [getGroup, getGroupKids, DGrp.name]
example : queryGroup ["layer"] (addPath 7 ["layer"] (rawGroup "layer" [] (.mk "" [0] [.mk "bg" [1] []]))) = [7] := by
  simp [queryGroup, getGroup, getGroupKids, addPath, addPathKids, rawGroup, DGrp.name, allPaths, allPathsList]

end SvgVerif.Props.C18Groups
