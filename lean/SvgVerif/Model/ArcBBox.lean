import SvgVerif.Model.BBox
/-! Hand-written model of `Arc.bbox` (svgpathtools/path.py), statement by statement: the three-way
choice of the critical angles `atan_x`, `atan_y`, `angle_inv`, the loop `for k in range(-4, 5)`
with the `0 <= t <= 1` filters, `Arc.point` for the candidate values, and Python's `min`/`max` (`Model.BBox.pmin/pmax`).
The mathematical functions the code calls (`cos`, `sin`, `tan`, `atan`, `pi`) are parameters, so the
same definition runs at `Rat` with exact stand-ins (correspondence driver) and is instantiated with
`Real.cos`, … in `Props/C08Arc.lean`.  Import-free. -/
namespace SvgVerif.Model.ArcBBox
open SvgVerif.Model.BBox (pmin pmax)

variable {S : Type} [Add S] [Sub S] [Mul S] [Div S] [Neg S] [LT S] [LE S] [DecidableLT S] [DecidableLE S]
  [DecidableEq S] [OfNat S 0] [OfNat S 1] [OfNat S 2] [OfNat S 180] [OfNat S 360] [IntCast S]

/-- the `math` functions `Arc.bbox` / `Arc.point` call -/
structure Fn (S : Type) where
  cos : S → S
  sin : S → S
  tan : S → S
  atan : S → S
  pi : S

/-- the attributes of an `Arc` that `bbox` reads -/
structure ArcData (S : Type) where
  startx : S
  starty : S
  endx : S
  endy : S
  cx : S
  cy : S
  rx : S
  ry : S
  /-- `self.phi` (radians) -/
  phi : S
  /-- `self.rot_matrix.real`, `.imag` -/
  cosphi : S
  sinphi : S
  theta : S
  delta : S

/-- `(atan_x, atan_y)` -/
def atanXY (F : Fn S) (a : ArcData S) : S × S :=
  if F.cos a.phi = 0 then (F.pi / 2, 0)
  else if F.sin a.phi = 0 then (0, F.pi / 2)
  else (F.atan (-(a.ry / a.rx) * F.tan a.phi), F.atan ((a.ry / a.rx) / F.tan a.phi))

/-- `angle_inv(ang, k) = ((ang + pi*k)*(360/(2*pi)) - self.theta)/self.delta` -/
def angleInv (F : Fn S) (a : ArcData S) (ang : S) (k : Int) : S :=
  ((ang + F.pi * (k : S)) * (360 / (2 * F.pi)) - a.theta) / a.delta

/-- `angle = (self.theta + t*self.delta)*pi/180` -/
def angle (F : Fn S) (a : ArcData S) (t : S) : S := (a.theta + t * a.delta) * F.pi / 180

/-- `Arc.point(t).real` -/
def pointX (F : Fn S) (a : ArcData S) (t : S) : S :=
  a.rx * a.cosphi * F.cos (angle F a t) - a.ry * a.sinphi * F.sin (angle F a t) + a.cx

/-- `Arc.point(t).imag` -/
def pointY (F : Fn S) (a : ArcData S) (t : S) : S :=
  a.rx * a.sinphi * F.cos (angle F a t) + a.ry * a.cosphi * F.sin (angle F a t) + a.cy

/-- `range(-4, 5)` -/
def ks : List Int := [-4, -3, -2, -1, 0, 1, 2, 3, 4]

/-- the parameters `tx` (resp. `ty`) that pass the `0 <= t <= 1` filter, in loop order -/
def critParams (F : Fn S) (a : ArcData S) (ang : S) : List S :=
  (ks.map (angleInv F a ang)).filter fun t => decide (0 ≤ t) && decide (t ≤ 1)

/-- `xtrema` and `ytrema` as the loop builds them (the loop appends alternately to two separate
lists, so the order inside each list is the order of `k`) -/
def xtrema (F : Fn S) (a : ArcData S) : List S :=
  [a.startx, a.endx] ++ (critParams F a (atanXY F a).1).map (pointX F a)
def ytrema (F : Fn S) (a : ArcData S) : List S :=
  [a.starty, a.endy] ++ (critParams F a (atanXY F a).2).map (pointY F a)

/-- `Arc.bbox()` = `(min(xtrema), max(xtrema), min(ytrema), max(ytrema))` -/
def bbox (F : Fn S) (a : ArcData S) : Option (S × S × S × S) :=
  match pmin (xtrema F a), pmax (xtrema F a), pmin (ytrema F a), pmax (ytrema F a) with
  | some x0, some x1, some y0, some y1 => some (x0, x1, y0, y1)
  | _, _, _, _ => none

end SvgVerif.Model.ArcBBox
