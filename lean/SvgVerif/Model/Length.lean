import SvgVerif.Model.PathParam
/-! Hand-written model of the length bookkeeping of `svgpathtools/path.py`:

* `segment_length` — the pure-Python recursive chord approximation used by `CubicBezier.length`
  and `Arc.length` when scipy is absent (and by `inv_arclength` through them);
* `Path.length(T0, T1)` — whole-path shortcut, single-segment shortcut, and the
  first-partial / whole-middle / last-partial decomposition through `T2t`.

`segment_length` is written over an abstract point type `P` with an abstract distance
(`abs(p - q)` in the code), so that one definition runs at `Rat` on 1-D stub curves (exact
correspondence, harness/props/c06.py) and is reasoned about in any pseudo-metric space.  Python's
recursion has no bound but the interpreter's stack; the model takes a `fuel` argument and returns
`none` where Python raises `RecursionError`. -/
namespace SvgVerif.Model.Length

section seglen
variable {P S : Type} [Add S] [Sub S] [LT S] [DecidableLT S]

/-- `segment_length(curve, start, end, start_point, end_point, error, min_depth, depth)`.
`pt = curve.point`, `dist p q = abs(p - q)`, `mid a b = (a + b)/2`. -/
def segLen (pt : S → P) (dist : P → P → S) (mid : S → S → S) (err : S) (minDepth : Nat) :
    Nat → Nat → S → S → P → P → Option S
  | 0, _, _, _, _, _ => none
  | fuel + 1, depth, a, b, pa, pb =>
    let m := mid a b
    let pm := pt m
    let length := dist pb pa
    let length2 := dist pm pa + dist pb pm
    if err < length2 - length ∨ depth < minDepth then
      match segLen pt dist mid err minDepth fuel (depth + 1) a m pa pm,
            segLen pt dist mid err minDepth fuel (depth + 1) m b pm pb with
      | some x, some y => some (x + y)
      | _, _ => none
    else some length2

/-- the same recursion, returning the parameter values of the leaves' end points (left to right,
without the first one): the partition whose inscribed polygon is measured -/
def segCuts (pt : S → P) (dist : P → P → S) (mid : S → S → S) (err : S) (minDepth : Nat) :
    Nat → Nat → S → S → P → P → List S
  | 0, _, _, _, _, _ => []
  | fuel + 1, depth, a, b, pa, pb =>
    let m := mid a b
    let pm := pt m
    let length := dist pb pa
    let length2 := dist pm pa + dist pb pm
    if err < length2 - length ∨ depth < minDepth then
      segCuts pt dist mid err minDepth fuel (depth + 1) a m pa pm ++
      segCuts pt dist mid err minDepth fuel (depth + 1) m b pm pb
    else [m, b]

/-- length of the polygon through `pt` of the parameters `a :: cuts` -/
def polyLen (pt : S → P) (dist : P → P → S) [OfNat S 0] : S → List S → S
  | _, [] => 0
  | a, c :: cs => dist (pt c) (pt a) + polyLen pt dist c cs

end seglen

section pathlen
variable {S : Type} [Add S] [Sub S] [Mul S] [Div S] [LT S] [LE S] [DecidableLT S] [DecidableLE S]
  [DecidableEq S] [OfNat S 0] [OfNat S 1]

open PathParam

/-- outcome of `Path.length(T0, T1)` -/
inductive LRes (S : Type) where
  | value (v : S)
  | bug            -- `T2t` fell through (`BugException`) or an index is out of range
  deriving Repr, DecidableEq

/-- `sum(self[idx].length() for idx in range(i, i + n))` (Python's `sum`: left fold from 0) -/
def midSum (seg : Nat → S → S → S) (i n : Nat) : S :=
  psum ((List.range n).map (fun j => seg (i + j) 0 1))

/-- `Path.length(T0, T1)`; `lens` = the whole-segment lengths (what `_calc_lengths` caches),
`seg k t0 t1 = self[k].length(t0, t1)` -/
def pathLength (lens : List S) (seg : Nat → S → S → S) (T0 T1 : S) : LRes S :=
  let (total, fr) := calcLengths lens
  if T0 = 0 ∧ T1 = 1 then .value total
  else if lens.length = 0 then .bug          -- `self[0]` / `T2t` fail on an empty path
  else if lens.length = 1 then .value (seg 0 T0 T1)
  else
    match T2t fr T0, T2t fr T1 with
    | some (i0, t0), some (i1, t1) =>
      if i0 = i1 then .value (seg i0 t0 t1)
      else .value (seg i0 t0 1 + midSum seg (i0 + 1) (i1 - (i0 + 1)) + seg i1 0 t1)
    | _, _ => .bug

end pathlen

end SvgVerif.Model.Length
