/-! Hand-written model of the **general-degree** helpers of `svgpathtools/bezier.py`:
`n_choose_k`, `bernstein`, `bezier_point` (Horner branches for degree ≤ 3 and the Bernstein-sum
branch above), `bezier2polynomial` (closed forms for ≤ 4 control points and the general
forward-difference branch, both orderings), `split_bezier` (de Casteljau recursion with the two
accumulators, right list reversed at the end) and `halve_bezier`.  Control points are scalars
(the code is coordinate-wise linear, complex control points are pairs of such).  Import-free;
executed at `Rat` by the driver against the real functions running on `Fraction`s, and reasoned
about over an arbitrary field in `Props/C19General.lean`. -/
namespace SvgVerif.Model.BezierN

/-- `math.factorial` -/
def fac : Nat → Nat
  | 0 => 1
  | n + 1 => (n + 1) * fac n

/-- `n_choose_k(n, k) = fac(n)//fac(k)//fac(n-k)` (Python floor division on ints) -/
def nChooseK (n k : Nat) : Nat := fac n / fac k / fac (n - k)

variable {S : Type} [Add S] [Sub S] [Mul S] [Div S] [Neg S] [NatCast S] [OfNat S 0] [OfNat S 1]
  [OfNat S 2] [OfNat S 3] [OfNat S 6]

/-- Python `x ** n` for a non-negative int `n` -/
def npow (x : S) : Nat → S
  | 0 => 1
  | n + 1 => npow x n * x

/-- `bernstein(n, t)`: `[n_choose_k(n, k) * t1**(n-k) * t**k for k in range(n+1)]`, `t1 = 1-t` -/
def bernsteinList (n : Nat) (t : S) : List S :=
  (List.range (n + 1)).map fun k => (nChooseK n k : S) * npow (1 - t) (n - k) * npow t k

/-- the `else` branch of `bezier_point`: `sum(bern[k]*p[k] for k in range(deg+1))`
(Python's `sum` starts from 0 and adds from the left) -/
def bezierPointSum (p : List S) (t : S) : S :=
  ((bernsteinList (p.length - 1) t).zip p).foldl (fun acc bp => acc + bp.1 * bp.2) 0

/-- `bezier_point(p, t)` for a list of control points (no arc) -/
def bezierPoint (p : List S) (t : S) : S :=
  match p with
  | [p0, p1, p2, p3] => p0 + t * (3 * (p1 - p0) + t * (3 * (p0 + p2) - 6 * p1 + t * (-p0 + 3 * (p1 - p2) + p3)))
  | [p0, p1, p2] => p0 + t * (2 * (p1 - p0) + t * (p0 - 2 * p1 + p2))
  | [p0, p1] => p0 + t * (p1 - p0)
  | [p0] => p0
  | _ => bezierPointSum p t

/-- `(-1)**m` as a scalar -/
def sgn (m : Nat) : S := if m % 2 = 0 then 1 else -1

/-- general branch of `bezier2polynomial`, BEFORE `coeffs.reverse()` (ascending powers):
`coeffs[j] = fac(n)//fac(n-j) * sum((-1)**(i+j) * p[i] / (fac(i)*fac(j-i)) for i in range(j+1))` -/
def b2pGeneralAsc (p : List S) (zero : S) : List S :=
  match p with
  | [] => []
  | _ =>
    let n := p.length - 1
    (List.range (n + 1)).map fun j =>
      ((fac n / fac (n - j) : Nat) : S) *
        (List.range (j + 1)).foldl (fun acc i => acc + sgn (i + j) * p.getD i zero / ((fac i * fac (j - i) : Nat) : S)) 0

/-- `bezier2polynomial(p, numpy_ordering)` -/
def bezier2polynomial (p : List S) (numpyOrdering : Bool) : List S :=
  let coeffs :=
    match p with
    | [p0, p1, p2, p3] => [-p0 + 3 * (p1 - p2) + p3, 3 * (p0 - 2 * p1 + p2), 3 * (p1 - p0), p0]
    | [p0, p1, p2] => [p0 - 2 * p1 + p2, 2 * (p1 - p0), p0]
    | [p0, p1] => [p1 - p0, p0]
    | [p0] => [p0]
    | _ => (b2pGeneralAsc p 0).reverse
  if numpyOrdering then coeffs else coeffs.reverse

/-- one level of de Casteljau: `new_points[i] = (1 - t)*bpoints[i] + t*bpoints[i+1]` -/
def dcStep (t : S) : List S → List S
  | a :: b :: rest => ((1 - t) * a + t * b) :: dcStep t (b :: rest)
  | _ => []

/-- `split_bezier_recursion(left, right, pts, t)`; `fuel` = `len(pts)` suffices.  Python raises
`IndexError` on an empty `pts` (`bpoints_[0]`): `none`. -/
def splitRec (t : S) : Nat → List S → List S → List S → Option (List S × List S)
  | 0, _, _, _ => none
  | fuel + 1, l, r, pts =>
    match pts with
    | [] => none
    | [a] => some (l ++ [a], r ++ [a])
    | a :: b :: rest => splitRec t fuel (l ++ [a]) (r ++ [(b :: rest).getLast (List.cons_ne_nil b rest)]) (dcStep t pts)

/-- `split_bezier(bpoints, t)` -/
def splitBezier (pts : List S) (t : S) : Option (List S × List S) :=
  match splitRec t pts.length [] [] pts with
  | some (l, r) => some (l, r.reverse)
  | none => none

/-- `halve_bezier(p)`: closed form for a cubic, `split_bezier(p, 0.5)` otherwise (`half` = 0.5) -/
def halveBezier (p : List S) (half : S) : Option (List S × List S) :=
  match p with
  | [p0, p1, p2, p3] =>
    some ([p0, (p0 + p1) / 2, (p0 + 2 * p1 + p2) / (2 + 2), (p0 + 3 * p1 + 3 * p2 + p3) / (2 + 6)],
          [(p0 + 3 * p1 + 3 * p2 + p3) / (2 + 6), (p1 + 2 * p2 + p3) / (2 + 2), (p2 + p3) / 2, p3])
  | _ => splitBezier p half

end SvgVerif.Model.BezierN
