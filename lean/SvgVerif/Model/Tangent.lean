import SvgVerif.Model.Poly
/-! Hand-written model of the removable-singularity branch of `bezier_unit_tangent` (svgpathtools/path.py): where
`seg.derivative(t)` vanishes the code returns `csqrt(rational_limit(d², |d|², t))` with `d = seg.poly().deriv()`.
The model computes the argument of `csqrt`: coefficient lists (highest power first) over an arbitrary coefficient
type `C` with a conjugation (`Cx Rat` in the driver, `ℂ` in the theorems), `|d|² = real(d)² + imag(d)²` written as
`d · conj(d)`, and `Model.Poly.rationalLimit`.  Import-free. -/
namespace SvgVerif.Model.Tangent
open SvgVerif.Model.Poly

/-- complex numbers over a scalar type, for the driver -/
structure Cx (S : Type) where
  re : S
  im : S
  deriving DecidableEq, Repr

namespace Cx
variable {S : Type} [Add S] [Sub S] [Mul S] [Div S] [Neg S] [OfNat S 0] [NatCast S]
instance : Add (Cx S) := ⟨fun a b => ⟨a.re + b.re, a.im + b.im⟩⟩
instance : Sub (Cx S) := ⟨fun a b => ⟨a.re - b.re, a.im - b.im⟩⟩
instance : Neg (Cx S) := ⟨fun a => ⟨-a.re, -a.im⟩⟩
instance : Mul (Cx S) := ⟨fun a b => ⟨a.re * b.re - a.im * b.im, a.re * b.im + a.im * b.re⟩⟩
instance : Div (Cx S) := ⟨fun a b =>
  let n := b.re * b.re + b.im * b.im
  ⟨(a.re * b.re + a.im * b.im) / n, (a.im * b.re - a.re * b.im) / n⟩⟩
instance : OfNat (Cx S) 0 := ⟨⟨0, 0⟩⟩
instance : NatCast (Cx S) := ⟨fun n => ⟨(n : S), 0⟩⟩
def conj (a : Cx S) : Cx S := ⟨a.re, -a.im⟩
end Cx

variable {C : Type} [Add C] [Sub C] [Mul C] [Div C] [Neg C] [DecidableEq C] [OfNat C 0] [NatCast C]

/-! ### polynomial product on coefficient lists -/

/-- sum of two low-degree-first coefficient lists -/
def addL : List C → List C → List C
  | [], bs => bs
  | as, [] => as
  | a :: as, b :: bs => (a + b) :: addL as bs

/-- product of two low-degree-first coefficient lists -/
def mulL : List C → List C → List C
  | [], _ => []
  | a :: as, bs => addL (bs.map (a * ·)) (0 :: mulL as bs)

/-- product of two highest-power-first coefficient lists (`np.poly1d.__mul__`, as a value) -/
def polyMul (a b : List C) : List C := (mulL a.reverse b.reverse).reverse

/-! ### the derivative polynomial of a Bezier segment -/

/-- `seg.poly().deriv()` from the control points: `bezier2polynomial` then `np.poly1d.deriv()` -/
def derivCoeffs : List C → List C
  | [p0, p1, p2, p3] =>
    let c0 := -p0 + ((3 : Nat) : C) * (p1 - p2) + p3
    let c1 := ((3 : Nat) : C) * (p0 - ((2 : Nat) : C) * p1 + p2)
    let c2 := ((3 : Nat) : C) * (p1 - p0)
    [((3 : Nat) : C) * c0, ((2 : Nat) : C) * c1, c2]
  | [p0, p1, p2] =>
    let c0 := p0 - ((2 : Nat) : C) * p1 + p2
    let c1 := ((2 : Nat) : C) * (p1 - p0)
    [((2 : Nat) : C) * c0, c1]
  | _ => []

/-- the argument of `csqrt` in the singular branch of `bezier_unit_tangent` -/
def tangentLimit (conj : C → C) (fuel : Nat) (pts : List C) (t : C) : LimResult C :=
  let d := derivCoeffs pts
  rationalLimit fuel (polyMul d d) (polyMul d (d.map conj)) t

end SvgVerif.Model.Tangent
