/-! Hand-written model of SVG flattening in `svgpathtools/document.py`:
`flattened_paths` (explicit stack, `pop()` from the end, `parent.dot(child)` composition, shapes
harvested per conversion key before the child groups are pushed) and
`flattened_paths_from_group` (route from the root to the requested group, desired / ignored sets),
next to the recursive *specification* of flattening.  Matrices are abstract (`M` with a product),
so one definition runs on exact rational affine matrices in the driver and is reasoned about in
any monoid.  Import-free. -/
namespace SvgVerif.Model.Flatten

/-- a drawable element: which converter handles it (index into `CONVERSIONS`: path, circle,
ellipse, line, polyline, polygon, rect), an identifier, and its own `transform` attribute -/
structure Shape (M : Type) where
  kind : Nat
  id : Nat
  tf : M
  deriving Repr

/-- a group element `<g>` (or the root): identifier, own transform, directly contained shapes in
document order, child groups in document order -/
inductive Grp (M : Type) where
  | mk (id : Nat) (tf : M) (shapes : List (Shape M)) (kids : List (Grp M))
  deriving Repr

namespace Grp
variable {M : Type}
def id : Grp M → Nat | mk i _ _ _ => i
def tf : Grp M → M | mk _ t _ _ => t
def shapes : Grp M → List (Shape M) | mk _ _ s _ => s
def kids : Grp M → List (Grp M) | mk _ _ _ k => k
end Grp

variable {M : Type}

/-- number of conversion keys iterated by `for key, converter in path_conversions.items()` -/
def nKinds : Nat := 7

/-- the shapes of one group in the order the code visits them: by key, then document order -/
def harvest (pathFilter : Shape M → Bool) (shapes : List (Shape M)) : List (Shape M) :=
  (List.range nKinds).flatMap (fun k => shapes.filter (fun s => s.kind == k && pathFilter s))

/-! ### specification: recursive descent, outermost transform first -/
mutual
  /-- every shape below `g` with the product of the transforms from `acc` (the ancestors) down to
  the shape's own -/
  def specFlatten (mul : M → M → M) (acc : M) : Grp M → List (Nat × M)
    | .mk _ t shapes kids =>
      let here := mul acc t
      shapes.map (fun s => (s.id, mul here s.tf)) ++ specFlattenList mul here kids
  def specFlattenList (mul : M → M → M) (acc : M) : List (Grp M) → List (Nat × M)
    | [] => []
    | g :: gs => specFlatten mul acc g ++ specFlattenList mul acc gs
end

/-! ### the code: explicit stack -/
mutual
  def size : Grp M → Nat
    | .mk _ _ _ kids => 1 + sizeList kids
  def sizeList : List (Grp M) → Nat
    | [] => 0
    | g :: gs => size g + sizeList gs
end

/-- `while stack: top = stack.pop(); …; stack.extend(children)`; the stack holds
`StackElement(group, transform)` with the transform already including the group's own -/
def stackLoop (mul : M → M → M) (groupFilter : Grp M → Bool) (pathFilter : Shape M → Bool) :
    Nat → List (Grp M × M) → List (Nat × M) → Option (List (Nat × M))
  | _, [], out => some out
  | 0, _ :: _, _ => none
  | fuel + 1, stack@(_ :: _), out =>
    match stack.getLast?, stack.dropLast with
    | none, _ => some out
    | some (g, tf), rest =>
      let found := (harvest pathFilter g.shapes).map (fun s => (s.id, mul tf s.tf))
      let children := (g.kids.filter groupFilter).map (fun k => (k, mul tf k.tf))
      stackLoop mul groupFilter pathFilter fuel (rest ++ children) (out ++ found)

/-- `flattened_paths(group, group_filter, path_filter)`; `one` is `np.identity(3)` -/
def flattenedPaths (mul : M → M → M) (one : M) (groupFilter : Grp M → Bool)
    (pathFilter : Shape M → Bool) (g : Grp M) : Option (List (Nat × M)) :=
  if groupFilter g then stackLoop mul groupFilter pathFilter (size g) [(g, mul one g.tf)] []
  else some []

/-! ### `flattened_paths_from_group` -/
mutual
  /-- identifiers of `g` and all groups below it (`group_to_flatten.iter()` restricted to groups) -/
  def groupIds : Grp M → List Nat
    | .mk i _ _ kids => i :: groupIdsList kids
  def groupIdsList : List (Grp M) → List Nat
    | [] => []
    | g :: gs => groupIds g ++ groupIdsList gs
end

/-- breadth-first search for the requested group: returns the route (root … parent of target).
`search` is the queue of routes (each stored with its frontier group last). -/
def findRoute (target : Nat) : Nat → List (List (Grp M)) → Option (List (Grp M))
  | 0, _ => none
  | _, [] => none
  | fuel + 1, top :: queue =>
    match top.getLast? with
    | none => none
    | some frontier =>
      if frontier.kids.any (fun k => k.id == target) then some top
      else findRoute target fuel (queue ++ frontier.kids.map (fun k => top ++ [k]))

inductive FromRes (M : Type) where
  | paths (ps : List (Nat × M))
  | notDescendant         -- warning + `[]`, or `ValueError`
  | fuel
  deriving Repr

/-- `flattened_paths_from_group(group_to_flatten, root, recursive)`; groups and shapes are identified
by their (unique) ids where the code uses `id(element)` -/
def fromGroup (mul : M → M → M) (one : M) (root : Grp M) (target : Grp M) (recursive : Bool) :
    FromRes M :=
  if !(groupIds root).contains target.id then .notDescendant else
  let desired0 := if recursive then groupIds target else [target.id]
  if root.id == target.id then
    match flattenedPaths mul one (fun g => desired0.contains g.id) (fun _ => true) root with
    | some ps => .paths ps
    | none => .fuel
  else
    match findRoute target.id (size root + 1) [[root]] with
    | none => .notDescendant
    | some route =>
      let desired := desired0 ++ route.map Grp.id
      let ignored := route.flatMap (fun g => g.shapes.map (·.id))
      match flattenedPaths mul one (fun g => desired.contains g.id) (fun s => !ignored.contains s.id) root with
      | some ps => .paths ps
      | none => .fuel

/-! ### affine matrices `[[a c e] [b d f] [0 0 1]]` (SVG order `matrix(a b c d e f)`) -/
structure Aff (K : Type) where
  a : K
  b : K
  c : K
  d : K
  e : K
  f : K
  deriving Repr, DecidableEq

section aff
variable {K : Type} [Add K] [Mul K] [OfNat K 0] [OfNat K 1]
def Aff.one : Aff K := ⟨1, 0, 0, 1, 0, 0⟩
/-- matrix product `p · q` (apply `q` first) -/
def Aff.mul (p q : Aff K) : Aff K :=
  ⟨p.a * q.a + p.c * q.b, p.b * q.a + p.d * q.b,
   p.a * q.c + p.c * q.d, p.b * q.c + p.d * q.d,
   p.a * q.e + p.c * q.f + p.e, p.b * q.e + p.d * q.f + p.f⟩
end aff

end SvgVerif.Model.Flatten
