import SvgVerif.Model.Scalar
/-! Hand-written model of `Arc._parameterize` (svgpathtools/path.py): the conversion from the SVG endpoint
parameterisation to centre, radii, start angle `theta` and sweep angle `delta` (SVG implementation notes F.6.5 /
F.6.6), statement by statement.  `sqrt`, `acosDeg` (= `degrees(acos(x))`) and `closeZero` (= `np.isclose(x, 0)`)
are parameters.  Import-free: executed at `Rat` by `Driver.lean` against the real method running on exact
rationals (harness/props/c04.py), reasoned about over ℝ in Props/C04Param.lean. -/
namespace SvgVerif.Model.ArcParam

variable {S : Type} [Add S] [Sub S] [Mul S] [Div S] [Neg S] [LT S] [LE S] [DecidableLT S] [DecidableLE S]
  [DecidableEq S] [OfNat S 0] [OfNat S 1] [OfNat S 2] [OfNat S 180] [OfNat S 360]

structure Params (S : Type) where
  rx : S
  ry : S
  cx : S
  cy : S
  theta : S
  delta : S

/-- `np.clip(x, -1, 1)` -/
def clip (x : S) : S := if x < -1 then -1 else if 1 < x then 1 else x

/-- `zp1 = (1/rot_matrix)*(start - end)/2` : the start point in the frame of the ellipse's axes, relative to the
chord midpoint (`(wx, wy) = rot_matrix`); Python evaluates `1/w` first, then the product, then `/2` -/
def zp1 (sx sy ex ey wx wy : S) : S × S :=
  let n := wx * wx + wy * wy
  let ix := wx / n
  let iy := (-wy) / n
  let dx := sx - ex
  let dy := sy - ey
  ((ix * dx - iy * dy) / 2, (ix * dy + iy * dx) / 2)

def radiusCheck (x1p y1p rx ry : S) : S := x1p * x1p / (rx * rx) + y1p * y1p / (ry * ry)

/-- the radii after the "correct out of range radii" step -/
def scaledRadii (sqrt : S → S) (x1p y1p rx ry : S) : S × S :=
  let rc := radiusCheck x1p y1p rx ry
  if 1 < rc then (rx * sqrt rc, ry * sqrt rc) else (rx, ry)

def radicand (x1p y1p rx ry : S) : S :=
  let tmp := rx * rx * (y1p * y1p) + ry * ry * (x1p * x1p)
  (rx * rx * (ry * ry) - tmp) / tmp

/-- `c'`: the centre in the primed frame -/
def cPrime (radical x1p y1p rx ry : S) (large sweep : Bool) : S × S :=
  if large = sweep then ((-radical) * (rx * y1p / ry), (-radical) * (-(ry * x1p / rx)))
  else (radical * (rx * y1p / ry), radical * (-(ry * x1p / rx)))

/-- the three-way case split for `theta` on the (clipped) transformed start point -/
def thetaOf (acosDeg : S → S) (u1x u1y : S) : S :=
  if 0 < u1y then acosDeg u1x
  else if u1y < 0 then -(acosDeg u1x)
  else if 0 < u1x then 0 else 180

/-- the case split for the raw `delta` -/
def deltaRaw (acosDeg : S → S) (u1x u1y u2x u2y : S) : S :=
  let det := u1x * u2y - u1y * u2x
  let dot := u1x * u2x + u1y * u2y
  let acosand := clip dot + clip 0
  if 0 < det then acosDeg acosand
  else if det < 0 then -(acosDeg acosand)
  else if 0 < dot then 0 else 180

/-- the final `±360` adjustments -/
def adjust (d : S) (large sweep : Bool) : S :=
  if (!sweep) && decide (0 ≤ d) then d - 360
  else if large && decide (d ≤ 0) then d + 360
  else d

/-- `Arc._parameterize()` for `start = (sx, sy)`, `end = (ex, ey)`, `radius = (rx, ry)` (already `abs`-ed by
`__init__`), `rot_matrix = exp(i·phi) = (wx, wy)`, with `autoscale_radius = True` -/
def parameterize (sqrt acosDeg : S → S) (closeZero : S → Bool)
    (sx sy ex ey rx0 ry0 wx wy : S) (large sweep : Bool) : Params S :=
  let z := zp1 sx sy ex ey wx wy
  let x1p := z.1
  let y1p := z.2
  let r := scaledRadii sqrt x1p y1p rx0 ry0
  let rx := r.1
  let ry := r.2
  let rad := radicand x1p y1p rx ry
  let radical := if closeZero rad then 0 else sqrt rad
  let cp := cPrime radical x1p y1p rx ry large sweep
  let cx := wx * cp.1 - wy * cp.2 + (sx + ex) / 2
  let cy := wx * cp.2 + wy * cp.1 + (sy + ey) / 2
  let u1x := clip ((x1p - cp.1) / rx)
  let u1y := clip ((y1p - cp.2) / ry)
  let u2x := clip ((-x1p - cp.1) / rx)
  let u2y := clip ((-y1p - cp.2) / ry)
  let theta := thetaOf acosDeg u1x u1y
  let delta := adjust (deltaRaw acosDeg u1x u1y u2x u2y) large sweep
  ⟨rx, ry, cx, cy, theta, delta⟩

/-- `Arc.__init__(start, radius, rotation, large_arc, sweep, end)` up to and including `_parameterize()`: the radii
are replaced by their absolute values, the flags by `bool(...)` (any non-zero number is `True`), `rot_matrix` is
`exp(1j·radians(rotation)) = (wx, wy)`; returns the stored radius, the two flags and the derived parameters -/
def arcInit (sqrt acosDeg : S → S) (closeZero : S → Bool)
    (sx sy ex ey rx ry wx wy : S) (large sweep : Int) : Params S × Bool × Bool :=
  let l := decide (large ≠ 0)
  let s := decide (sweep ≠ 0)
  (parameterize sqrt acosDeg closeZero sx sy ex ey (SvgVerif.Model.sabs rx) (SvgVerif.Model.sabs ry) wx wy l s, l, s)

end SvgVerif.Model.ArcParam
