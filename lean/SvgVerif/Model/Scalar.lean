/-! Scalar plumbing shared by the executable models.  Import-free (core Lean only)
so that `Driver.lean` runs under `lake env lean --run` without loading Mathlib.

Every model is written once over *unbundled* notation classes
(`[Add S] [Sub S] … [LT S] [DecidableLT S] … [OfNat S 0] [OfNat S 1]`), with no
algebraic law assumed, and is then used at `Rat` (execution, in the
correspondence driver) and at ordered fields / ℝ (theorems) — where the
instances found are the standard ones, so there are no instance diamonds. -/
namespace SvgVerif.Model

variable {S : Type} [Add S] [Sub S] [Mul S] [Neg S] [LT S] [DecidableLT S] [OfNat S 0]

/-- Python's `abs` on a real scalar -/
def sabs (x : S) : S := if x < 0 then -x else x

/-- `misctools.isclose(a, b, rtol, atol)`: `abs(a-b) < atol + rtol*abs(b)` -/
def isclose (rtol atol : S) (a b : S) : Bool := decide (sabs (a - b) < atol + rtol * sabs b)

end SvgVerif.Model
