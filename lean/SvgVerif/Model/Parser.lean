/-! Hand-written model of `Path._parse_path` (svgpathtools/path.py), token level: the
`while elements:` loop with its state (`current_pos`, `start_pos`, `command`, `last_command`,
`segments`, `_closed`), the implicit-command branch, `M`→`L` rewriting, the `'CS'` / `'QT'`
membership tests, zero-radius arcs, and the exceptions it can raise.

Law-free: the only operations on coordinates are `+`, `-` and `==`, written in the operand
order of the Python, and no law of arithmetic is assumed.  A complex number is a pair. -/
namespace SvgVerif.Model.Parser

abbrev Pt (S : Type) := S × S

inductive Tok (S : Type) where
  | cmd (upper : Char) (absolute : Bool)     -- a command letter: its upper-case form and `letter in UPPERCASE`
  | num (x : S)                               -- a token matched by FLOAT_RE, already `float()`ed
  deriving Repr, DecidableEq

inductive Seg (S : Type) where
  | line (a b : Pt S)
  | quad (a c b : Pt S)
  | cubic (a c1 c2 b : Pt S)
  | arc (a : Pt S) (r : Pt S) (rot : S) (large sweep : Bool) (b : Pt S)   -- raw arguments of `Arc(...)`
  deriving Repr, DecidableEq

inductive Err where
  | implicitWithoutCommand   -- ValueError("Unallowed implicit command ...")
  | popFromEmpty             -- IndexError: pop from empty list
  | notANumber               -- ValueError: could not convert string to float (a letter where a number was expected)
  | noneNotInStr             -- TypeError: 'in <string>' requires string as left operand, not NoneType  (pre-repair, F4)
  | noStartPos               -- Z / relative command before any moveto (`None` used as a point)
  | arcStartEqEnd            -- AssertionError in `Arc.__init__` (start == end), finding F23
  | fuel
  deriving Repr, DecidableEq

variable {S : Type} [Add S] [Sub S] [DecidableEq S] [OfNat S 0]

def padd (a b : Pt S) : Pt S := (a.1 + b.1, a.2 + b.2)
def psub (a b : Pt S) : Pt S := (a.1 - b.1, a.2 - b.2)

structure PS (S : Type) where
  cur : Pt S                       -- `current_pos`
  start : Option (Pt S)            -- `start_pos`
  command : Option Char            -- `command` (upper case) or None
  absolute : Bool                  -- `absolute` (keeps its value across implicit repetitions)
  segs : List (Seg S)              -- newest FIRST (the Python appends; reversed at the end)
  closed : Bool                    -- `self._closed`
  deriving Repr

def initial (cur : Pt S) : PS S :=
  { cur := cur, start := none, command := none, absolute := true, segs := [], closed := false }

/-- `elements.pop()` expecting a number -/
def popNum : List (Tok S) → Except Err (S × List (Tok S))
  | [] => .error .popFromEmpty
  | .num x :: r => .ok (x, r)
  | .cmd _ _ :: _ => .error .notANumber

/-- `float(elements.pop()) + float(elements.pop()) * 1j` -/
def popPt (ts : List (Tok S)) : Except Err (Pt S × List (Tok S)) :=
  match popNum ts with
  | .error e => .error e
  | .ok (x, r) =>
    match popNum r with
    | .error e => .error e
    | .ok (y, r) => .ok ((x, y), r)

/-- `x = elements.pop(); y = elements.pop(); pos = float(x) + float(y) * 1j` (M and L: both pops
happen before the conversions) -/
def popPtML (ts : List (Tok S)) : Except Err (Pt S × List (Tok S)) :=
  match ts with
  | [] => .error .popFromEmpty
  | [_] => .error .popFromEmpty
  | .num x :: .num y :: r => .ok ((x, y), r)
  | _ :: _ :: _ => .error .notANumber

/-- `segments[-1].control2` / `.control` of the most recently appended segment -/
def lastControl2 : List (Seg S) → Option (Pt S)
  | .cubic _ _ c2 _ :: _ => some c2
  | _ => none
def lastControl : List (Seg S) → Option (Pt S)
  | .quad _ c _ :: _ => some c
  | _ => none

/-- `x += current_pos` when the command is relative -/
def rel (absolute : Bool) (cur p : Pt S) : Pt S := if absolute then p else padd p cur

/-- the body of one loop iteration once `command`, `absolute`, `last_command` are known.
`legacy = true` reproduces two pre-repair behaviours: `last_command not in 'CS'` with
`last_command is None` (TypeError, finding F4) and the AssertionError of `Arc.__init__` for an
arc command whose end point is the current point (finding F23; SVG F.6.2 omits the segment). -/
def body (legacy : Bool) (ps : PS S) (command : Char) (absolute : Bool) (lastCommand : Option Char)
    (ts : List (Tok S)) : Except Err (PS S × List (Tok S)) :=
  let ps := { ps with command := some command, absolute := absolute }
  if command = 'M' then
    match popPtML ts with
    | .error e => .error e
    | .ok (pos, r) =>
      let cur := if absolute then pos else padd ps.cur pos
      .ok ({ ps with cur := cur, start := some cur, command := some 'L' }, r)
  else if command = 'Z' then
    match ps.start with
    | none => .error .noStartPos
    | some st =>
      let segs := if ps.cur = st then ps.segs else .line ps.cur st :: ps.segs
      .ok ({ ps with segs := segs, closed := true, cur := st, command := none }, ts)
  else if command = 'L' then
    match popPtML ts with
    | .error e => .error e
    | .ok (p, r) =>
      let pos := rel absolute ps.cur p
      .ok ({ ps with segs := .line ps.cur pos :: ps.segs, cur := pos }, r)
  else if command = 'H' then
    match popNum ts with
    | .error e => .error e
    | .ok (x, r) =>
      let pos : Pt S := if absolute then (x, ps.cur.2) else (x + ps.cur.1, ps.cur.2)
      .ok ({ ps with segs := .line ps.cur pos :: ps.segs, cur := pos }, r)
  else if command = 'V' then
    match popNum ts with
    | .error e => .error e
    | .ok (y, r) =>
      let pos : Pt S := if absolute then (ps.cur.1, y) else (ps.cur.1, y + ps.cur.2)
      .ok ({ ps with segs := .line ps.cur pos :: ps.segs, cur := pos }, r)
  else if command = 'C' then
    match popPt ts with
    | .error e => .error e
    | .ok (c1, r) =>
      match popPt r with
      | .error e => .error e
      | .ok (c2, r) =>
        match popPt r with
        | .error e => .error e
        | .ok (e, r) =>
          let c1 := rel absolute ps.cur c1
          let c2 := rel absolute ps.cur c2
          let e := rel absolute ps.cur e
          .ok ({ ps with segs := .cubic ps.cur c1 c2 e :: ps.segs, cur := e }, r)
  else if command = 'S' then
    let inCS : Except Err Bool :=
      match lastCommand with
      | none => if legacy then .error .noneNotInStr else .ok false
      | some c => .ok (c = 'C' || c = 'S')
    match inCS with
    | .error e => .error e
    | .ok reflect =>
      let c1 : Pt S :=
        if reflect then
          match lastControl2 ps.segs with
          | some c2 => psub (padd ps.cur ps.cur) c2
          | none => ps.cur        -- unreachable: a C/S command always appended a cubic
        else ps.cur
      match popPt ts with
      | .error e => .error e
      | .ok (c2, r) =>
        match popPt r with
        | .error e => .error e
        | .ok (e, r) =>
          let c2 := rel absolute ps.cur c2
          let e := rel absolute ps.cur e
          .ok ({ ps with segs := .cubic ps.cur c1 c2 e :: ps.segs, cur := e }, r)
  else if command = 'Q' then
    match popPt ts with
    | .error e => .error e
    | .ok (c, r) =>
      match popPt r with
      | .error e => .error e
      | .ok (e, r) =>
        let c := rel absolute ps.cur c
        let e := rel absolute ps.cur e
        .ok ({ ps with segs := .quad ps.cur c e :: ps.segs, cur := e }, r)
  else if command = 'T' then
    let inQT : Except Err Bool :=
      match lastCommand with
      | none => if legacy then .error .noneNotInStr else .ok false
      | some c => .ok (c = 'Q' || c = 'T')
    match inQT with
    | .error e => .error e
    | .ok reflect =>
      let c : Pt S :=
        if reflect then
          match lastControl ps.segs with
          | some c => psub (padd ps.cur ps.cur) c
          | none => ps.cur
        else ps.cur
      match popPt ts with
      | .error e => .error e
      | .ok (e, r) =>
        let e := rel absolute ps.cur e
        .ok ({ ps with segs := .quad ps.cur c e :: ps.segs, cur := e }, r)
  else if command = 'A' then
    match popPt ts with
    | .error e => .error e
    | .ok (radius, r) =>
      match popNum r with
      | .error e => .error e
      | .ok (rot, r) =>
        match popNum r with
        | .error e => .error e
        | .ok (large, r) =>
          match popNum r with
          | .error e => .error e
          | .ok (sweep, r) =>
            match popPt r with
            | .error e => .error e
            | .ok (e, r) =>
              let e := rel absolute ps.cur e
              if radius.1 = 0 ∨ radius.2 = 0 then
                .ok ({ ps with segs := .line ps.cur e :: ps.segs, cur := e }, r)
              else if ps.cur = e then
                (if legacy then .error .arcStartEqEnd else .ok ({ ps with cur := e }, r))
              else
                .ok ({ ps with segs := .arc ps.cur radius rot (large ≠ 0) (sweep ≠ 0) e :: ps.segs, cur := e }, r)
  else .ok (ps, ts)     -- not reachable: COMMANDS has only the ten letters

/-- one iteration of `while elements:` -/
def step (legacy : Bool) (ps : PS S) (ts : List (Tok S)) : Except Err (PS S × List (Tok S)) :=
  match ts with
  | .cmd c a :: r => body legacy ps c a ps.command r
  | _ =>
    match ps.command with
    | none => .error .implicitWithoutCommand
    | some c => body legacy ps c ps.absolute (some c) ts

/-- the loop; `fuel` bounds the iterations (each one consumes at least one token, so
`ts.length` suffices — see `Props.C02.parse_fuel`) -/
def loop (legacy : Bool) : Nat → PS S → List (Tok S) → Except Err (PS S)
  | _, ps, [] => .ok ps
  | 0, _, _ :: _ => .error .fuel
  | n + 1, ps, ts =>
    match step legacy ps ts with
    | .error e => .error e
    | .ok (ps', ts') => loop legacy n ps' ts'

/-- `Path._parse_path` on a token list: the segments (in order) and the `_closed` flag -/
def parseToks (legacy : Bool) (cur : Pt S) (ts : List (Tok S)) : Except Err (List (Seg S) × Bool) :=
  match loop legacy (ts.length + 1) (initial cur) ts with
  | .error e => .error e
  | .ok ps => .ok (ps.segs.reverse, ps.closed)

end SvgVerif.Model.Parser
