import SvgVerif.Model.Flatten
/-! Hand-written model of `parse_transform` / `_parse_transform_substr` (svgpathtools/parser.py) at
string level: `split(')')[:-1]`, `split('(')` (exactly two parts or `ValueError`), `,`→space,
`split(' ')` dropping empty tokens, `float()`, the substring dispatch in the order
`matrix / translate / scale / rotate / skewX / skewY`, the arity checks that fall back to the
identity, and the left-to-right product.  `cos`, `sin`, `tan` of the angle (in degrees) are
parameters. -/
namespace SvgVerif.Model.TransformParse
open SvgVerif.Model.Flatten

variable {K : Type} [Add K] [Mul K] [Neg K] [OfNat K 0] [OfNat K 1]

inductive TRes (K : Type) where
  | ok (m : Aff K)
  | valueError      -- unpacking `split('(')`, or `float()` of a bad token
  deriving Repr

/-- is `pat` a substring of `s` (Python `pat in s`) -/
def hasSub (pat s : List Char) : Bool :=
  match s with
  | [] => pat.isEmpty
  | _ :: t => pat.isPrefixOf s || hasSub pat t

/-- Python `s.split(c)` for a single character -/
def splitOn (c : Char) (s : List Char) : List (List Char) :=
  let rec go (acc : List Char) : List Char → List (List Char)
    | [] => [acc.reverse]
    | x :: xs => if x = c then acc.reverse :: go [] xs else go (x :: acc) xs
  go [] s

/-- the matrix of one transform given its name part, the whole substring and the parsed values -/
def opMatrix (cosd sind tand : K → K) (typeStr whole : List Char) (v : List K) : Aff K :=
  let I : Aff K := Aff.one
  if hasSub "matrix".toList typeStr then
    match v with
    | [a, b, c, d, e, f] => ⟨a, b, c, d, e, f⟩
    | _ => I
  else if hasSub "translate".toList whole then
    match v with
    | [tx] => ⟨1, 0, 0, 1, tx, 0⟩
    | [tx, ty] => ⟨1, 0, 0, 1, tx, ty⟩
    | _ => I
  else if hasSub "scale".toList whole then
    match v with
    | [sx] => ⟨sx, 0, 0, sx, 0, 0⟩
    | [sx, sy] => ⟨sx, 0, 0, sy, 0, 0⟩
    | _ => I
  else if hasSub "rotate".toList whole then
    let rot (a cx cy : K) : Aff K :=
      Aff.mul (Aff.mul ⟨1, 0, 0, 1, cx, cy⟩ ⟨cosd a, sind a, -sind a, cosd a, 0, 0⟩) ⟨1, 0, 0, 1, -cx, -cy⟩
    match v with
    | [a] => rot a 0 0
    | [a, cx, cy] => rot a cx cy
    | _ => I
  else if hasSub "skewX".toList whole then
    match v with
    | [a] => ⟨1, 0, tand a, 1, 0, 0⟩
    | _ => I
  else if hasSub "skewY".toList whole then
    match v with
    | [a] => ⟨1, tand a, 0, 1, 0, 0⟩
    | _ => I
  else I

/-- `_parse_transform_substr` -/
def parseSubstr (toNum : List Char → Option K) (cosd sind tand : K → K) (sub : List Char) : TRes K :=
  match splitOn '(' sub with
  | [typeStr, valueStr] =>
    let toks := (splitOn ' ' (valueStr.map (fun c => if c = ',' then ' ' else c))).filter (fun t => !t.isEmpty)
    match toks.mapM toNum with
    | some vals => .ok (opMatrix cosd sind tand typeStr sub vals)
    | none => .valueError
  | _ => .valueError

/-- `parse_transform(transform_str)` for a string (empty string ⇒ identity) -/
def parseTransform (toNum : List Char → Option K) (cosd sind tand : K → K) (s : List Char) : TRes K :=
  if s.isEmpty then .ok Aff.one else
  let subs := (splitOn ')' s).dropLast
  subs.foldl (fun acc sub =>
    match acc with
    | .valueError => .valueError
    | .ok m =>
      match parseSubstr toNum cosd sind tand sub with
      | .ok t => .ok (Aff.mul m t)
      | .valueError => .valueError) (.ok Aff.one)

end SvgVerif.Model.TransformParse
