import SvgVerif.Model.Scalar
import SvgVerif.Model.PathParam
/-! Hand-written models of the control logic of the intersection code of svgpathtools:
`Line.intersect(Line)` (closed form + filters), the hull pre-filter shared by the Bezier
`intersect` methods, `bezier_by_line_intersections` (root filter), `bezier_intersections`
(pair-list subdivision with redundant-pair removal), `Arc.phase2t`, and `Path.intersect`
(t → T mapping and joint de-duplication).  Import-free; executed at `Rat` by `Driver.lean`
against the real functions (harness/props/c11.py, c12.py), reasoned about in Props/C11, C12. -/
namespace SvgVerif.Model.Intersect
open SvgVerif.Model

variable {S : Type} [Add S] [Sub S] [Mul S] [Div S] [Neg S] [LT S] [LE S] [DecidableLT S]
  [DecidableLE S] [DecidableEq S] [OfNat S 0] [OfNat S 1]

/-! ### Python `min` / `max` of a list (first extremal element wins; irrelevant for values) -/
def lmin : List S → S
  | [] => 0
  | x :: xs => xs.foldl (fun m y => if y < m then y else m) x
def lmax : List S → S
  | [] => 0
  | x :: xs => xs.foldl (fun m y => if m < y then y else m) x

/-- the four early `return []` tests at the top of `Line/QuadraticBezier/CubicBezier.intersect`:
`sb` = control points of `self`, `ob` = control points of `other_seg` -/
def hullDisjoint (sb ob : List (S × S)) : Bool :=
  decide (lmax (sb.map (·.1)) < lmin (ob.map (·.1))) || decide (lmax (ob.map (·.1)) < lmin (sb.map (·.1))) ||
  decide (lmax (sb.map (·.2)) < lmin (ob.map (·.2))) || decide (lmax (ob.map (·.2)) < lmin (sb.map (·.2)))

/-! ### Line.intersect(Line) -/
def llDenom (p0 p1 q0 q1 : S × S) : S :=
  (p1.1 - p0.1) * (q0.2 - q1.2) - (p1.2 - p0.2) * (q0.1 - q1.1)
def llT1 (p0 p1 q0 q1 : S × S) : S :=
  (q0.1 * (p0.2 - q1.2) - q1.1 * (p0.2 - q0.2) - p0.1 * (q0.2 - q1.2)) / llDenom p0 p1 q0 q1
def llT2 (p0 p1 q0 q1 : S × S) : S :=
  (-(p1.1 * (p0.2 - q0.2) - p0.1 * (p1.2 - q0.2) - q0.1 * (p0.2 - p1.2))) / llDenom p0 p1 q0 q1

/-- `Line(p0,p1).intersect(Line(q0,q1))`; `closeZero d` is `np.isclose(d, 0)` -/
def lineLine (closeZero : S → Bool) (p0 p1 q0 q1 : S × S) : List (S × S) :=
  if hullDisjoint [p0, p1] [q0, q1] then []
  else if closeZero (llDenom p0 p1 q0 q1) then []
  else
    let t1 := llT1 p0 p1 q0 q1
    let t2 := llT2 p0 p1 q0 q1
    if 0 ≤ t1 ∧ t1 ≤ 1 ∧ 0 ≤ t2 ∧ t2 ≤ 1 then [(t1, t2)] else []

/-! ### bezier_by_line_intersections -/

/-- the point `z` in the frame of the line: `(L/d)·(z − l0)` with `d = l1 − l0`, `L = |d|`,
computed as Python's complex division and multiplication do -/
def toLineFrame (l0 l1 : S × S) (L : S) (z : S × S) : S × S :=
  let dx := l1.1 - l0.1
  let dy := l1.2 - l0.2
  let n := dx * dx + dy * dy
  -- rotation_matrix = L / d = (L·dx/n, −L·dy/n)
  let rx := (L * dx) / n
  let ry := (-(L * dy)) / n
  let x := z.1 - l0.1
  let y := z.2 - l0.2
  (rx * x - ry * y, rx * y + ry * x)

/-- everything after `polyroots01`: `for bez_t in set(roots_y)` keep those with `0 <= xval <= line_length`.
`curve t` is `bezier_point(bezier, t)`.  (`set` iteration order is unspecified; the driver sorts.) -/
def bezierByLine (curve : S → S × S) (l0 l1 : S × S) (L : S) (roots : List S) : List (S × S) :=
  (roots.eraseDups).filterMap fun t =>
    let x := (toLineFrame l0 l1 L (curve t)).1
    if 0 ≤ x ∧ x ≤ L then some (t, x / L) else none

/-! ### bezier_intersections -/
structure Box (S : Type) where
  xmin : S
  xmax : S
  ymin : S
  ymax : S

def boxArea (b : Box S) : S := (b.xmax - b.xmin) * (b.ymax - b.ymin)

def smin (a b : S) : S := if b < a then b else a
def smax (a b : S) : S := if a < b then b else a

/-- `interval_intersection_width(a, b, c, d)` is used only for its truth value:
`max(0, min(b,d) − max(a,c))` is truthy iff the overlap has positive width -/
def overlapPos (a b c d : S) : Bool := decide (0 < smin b d - smax a c)

/-- `boxes_intersect` (boxes that merely touch do NOT intersect) -/
def boxesIntersect (b1 b2 : Box S) : Bool :=
  overlapPos b1.xmin b1.xmax b2.xmin b2.xmax && overlapPos b1.ymin b1.ymax b2.ymin b2.ymax

/-- `BPair`; `id` stands for object identity (`pair not in pair_list`, `pair_list.remove(otherPair)`) -/
structure BPair (C S : Type) where
  bez1 : C
  bez2 : C
  t1 : S
  t2 : S
  id : Nat

/-- what `bezier_intersections` needs from the outside -/
structure Env (C S P : Type) where
  bbox : C → Box S                 -- bezier_bounding_box
  halve : C → C × C                -- halve_bezier
  ceq : C → C → Bool               -- `==` on control-point lists
  point : S → P                    -- bezier_point(bez1, t)
  close : P → P → Bool             -- abs(x − y) < tol   (ApproxSolutionSet)
  tolDeC : S

variable {C P : Type}

def shares (env : Env C S P) (p q : BPair C S) : Bool :=
  env.ceq p.bez1 q.bez1 || env.ceq p.bez2 q.bez2 || env.ceq p.bez1 q.bez2 || env.ceq p.bez2 q.bez1

/-- the four children of a pair, in the order of `new_pairs += [...]`; ids are assigned later -/
def children (env : Env C S P) (delta : S) (p : BPair C S) : List (BPair C S) :=
  let c1 := env.halve p.bez1
  let c2 := env.halve p.bez2
  [⟨c1.1, c2.1, p.t1 - delta, p.t2 - delta, 0⟩, ⟨c1.1, c2.2, p.t1 - delta, p.t2 + delta, 0⟩,
   ⟨c1.2, c2.1, p.t1 + delta, p.t2 - delta, 0⟩, ⟨c1.2, c2.2, p.t1 + delta, p.t2 + delta, 0⟩]

/-- state threaded through one `for pair in list(pair_list)` sweep -/
structure Sweep (C S P : Type) where
  live : List (BPair C S)          -- pair_list (mutated by `remove`)
  newPairs : List (BPair C S)
  pts : List P                     -- approx_point_set
  out : List (S × S)               -- intersection_list

def isSmall (env : Env C S P) (b1 b2 : Box S) : Bool :=
  decide (boxArea b1 < env.tolDeC) && decide (boxArea b2 < env.tolDeC)

/-- body of the `for pair in list(pair_list)` loop -/
def sweepStep (env : Env C S P) (delta : S) (st : Sweep C S P) (p : BPair C S) : Sweep C S P :=
  if !(st.live.any (·.id == p.id)) then st            -- `if pair not in pair_list: continue`
  else
    let b1 := env.bbox p.bez1
    let b2 := env.bbox p.bez2
    if boxesIntersect b1 b2 then
      if isSmall env b1 b2 then
        let pt := env.point p.t1
        let st := if st.pts.any (fun y => env.close pt y) then st
                  else { st with pts := st.pts ++ [pt], out := st.out ++ [(p.t1, p.t2)] }
        { st with live := st.live.filter (fun q => !(shares env p q)) }
      else { st with newPairs := st.newPairs ++ children env delta p }
    else st

def renumber (ps : List (BPair C S)) : List (BPair C S) :=
  ps.zipIdx.map (fun (p, i) => { p with id := i })

/-- `0.5**n` -/
def halfPow (two : S) : Nat → S
  | 0 => 1
  | n + 1 => halfPow two n / two

inductive BIResult (S : Type) where
  | ok (out : List (S × S))
  | maxits                         -- `raise Exception("bezier_intersections has reached maximum iterations ...")`

/-- the `while pair_list and k < maxits` loop; `fuel = maxits − k` -/
def biLoop (env : Env C S P) (two : S) : Nat → Nat → List (BPair C S) → List P → List (S × S) → BIResult S
  | 0, _, _, _, _ => .maxits                                  -- k ≥ maxits after the loop
  | fuel + 1, k, pairs, pts, out =>
    match pairs with
    | [] => .ok out                                            -- loop left with k < maxits
    | _ =>
      let delta := halfPow two (k + 2)
      let st := pairs.foldl (sweepStep env delta) ⟨pairs, [], pts, out⟩
      biLoop env two fuel (k + 1) (renumber st.newPairs) st.pts st.out

/-- `bezier_intersections(bez1, bez2, longer_length, tol, tol_deC)` with `maxits` as computed by the caller -/
def bezierIntersections (env : Env C S P) (two : S) (maxits : Nat) (bez1 bez2 : C) : BIResult S :=
  biLoop env two maxits 0 [⟨bez1, bez2, 1 / two, 1 / two, 0⟩] [] []

/-! ### de Casteljau on control-point lists (what `bezier_point`, `halve_bezier` compute in exact arithmetic) -/

/-- one de Casteljau level at parameter `t` -/
def dcStep (t : S) : List (S × S) → List (S × S)
  | a :: b :: rest => ((1 - t) * a.1 + t * b.1, (1 - t) * a.2 + t * b.2) :: dcStep t (b :: rest)
  | _ => []

/-- `bezier_point(p, t)` -/
def dcPoint (t : S) : Nat → List (S × S) → S × S
  | 0, pts => pts.headD (0, 0)
  | n + 1, pts =>
    match pts with
    | [] => (0, 0)
    | [a] => a
    | _ => dcPoint t n (dcStep t pts)

/-- `split_bezier(p, t)`: (left control points, right control points) -/
def dcSplit (t : S) : Nat → List (S × S) → List (S × S) × List (S × S)
  | 0, _ => ([], [])
  | n + 1, pts =>
    match pts with
    | [] => ([], [])
    | [a] => ([a], [a])
    | a :: rest =>
      let (l, r) := dcSplit t n (dcStep t pts)
      (a :: l, r ++ [rest.getLastD a])

/-- the box spanned by the control points (used by the correspondence check in place of
`bezier_bounding_box`, whose square roots are not exact) -/
def hullBox : List (S × S) → Box S
  | [] => ⟨0, 0, 0, 0⟩
  | pts => ⟨lmin (pts.map (·.1)), lmax (pts.map (·.1)), lmin (pts.map (·.2)), lmax (pts.map (·.2))⟩

/-! ### Arc.phase2t -/

/-- Python's `a % b` and `a // b` for `b > 0` through a floor function `fl : S → S` -/
def pmod (fl : S → S) (a b : S) : S := a - b * fl (a / b)

/-- the inner `_deg(rads, domain_lower_limit)`; `c360 = 360`, `c180 = 180`, `pi` as given -/
def degIn (fl : S → S) (pi c180 c360 two : S) (rads lower : S) : S :=
  let degs := pmod fl rads (two * pi) * c180 / pi            -- degrees(rads % (2*pi))
  let k := fl (lower / c360)                                   -- lower // 360
  let degs := degs + k * c360
  if degs < lower then degs + c360 else degs

/-- `Arc.phase2t(psi)` -/
def phase2t (fl : S → S) (pi c180 c360 two : S) (theta delta psi : S) : S :=
  let degs := if 0 < delta then degIn fl pi c180 c360 two psi theta
              else -(degIn fl pi c180 c360 two (-psi) (-theta))
  (degs - theta) / delta

/-! ### Path.intersect -/

/-- one `(t1, t2)` returned by `seg1.intersect(seg2)`, in loop order, with the point `seg1.point(t1)` -/
structure Hit (S P : Type) where
  i : Nat
  j : Nat
  t1 : S
  t2 : S
  pt : P

/-- `Path.index(seg)`: first position holding an equal segment (`lab` = equality class of each segment) -/
def firstIdx (lab : List Nat) (i : Nat) : Nat :=
  match lab[i]? with
  | none => i
  | some l => (lab.findIdx (· == l))

/-- indices removed by the joint-redundancy block: `ind2` such that some `ind1 < ind2` is within `tol` -/
def redundant (close : P → P → Bool) (pts : List P) : List Bool :=
  pts.zipIdx.map (fun (p, k) => (pts.take k).any (fun q => close q p))

/-- `Path.intersect` after the segment-level calls: `((T1, i, t1), (T2, j, t2))` per surviving hit -/
def pathIntersect (close : P → P → Bool) (fr1 fr2 : List S) (lab1 lab2 : List Nat)
    (hits : List (Hit S P)) : List ((Option S × Nat × S) × (Option S × Nat × S)) :=
  let red := redundant close (hits.map (·.pt))
  (hits.zip red).filterMap fun (h, r) =>
    if r then none
    else some ((PathParam.t2T fr1 (firstIdx lab1 h.i) h.t1, h.i, h.t1),
               (PathParam.t2T fr2 (firstIdx lab2 h.j) h.t2, h.j, h.t2))

end SvgVerif.Model.Intersect
