/-! Hand-written model of `Arc.as_cubic_curves(curves)` and `Arc.as_quad_curves(curves)`
(svgpathtools/path.py): the generator loops with their running state `(p_start, current_t)`, the end point of
piece `i` computed from the centre form except for the last piece, which ends at `self.end`, and the control
points.  The `math` functions are parameters (`radians`, `cos`, `sin`, `tan`, `sqrt`), so the same definition runs at
`Rat` with exact stand-ins (correspondence driver) and is instantiated with the real functions in
`Props/C04Approx.lean`.  Import-free. -/
namespace SvgVerif.Model.ArcApprox

variable {S : Type} [Add S] [Sub S] [Mul S] [Div S] [Neg S] [NatCast S] [OfNat S 1] [OfNat S 2] [OfNat S 3] [OfNat S 4]

structure Fn (S : Type) where
  radians : S → S
  cos : S → S
  sin : S → S
  tan : S → S
  sqrt : S → S

/-- the attributes of the `Arc` the generators read -/
structure ArcData (S : Type) where
  sx : S
  sy : S
  ex : S
  ey : S
  cx : S
  cy : S
  rx : S
  ry : S
  rotation : S
  theta : S
  delta : S

abbrev Pt (S : Type) := S × S

/-- point of the centre form at eccentric angle `a` (radians), as both loops compute it -/
def ellipsePt (F : Fn S) (d : ArcData S) (a : S) : Pt S :=
  let th := F.radians d.rotation
  (d.cx + d.rx * F.cos a * F.cos th - d.ry * F.sin a * F.sin th,
   d.cy + d.rx * F.cos a * F.sin th + d.ry * F.sin a * F.cos th)

/-- `ePrime`: derivative of the centre form with respect to the eccentric angle -/
def ePrime (F : Fn S) (d : ArcData S) (a : S) : Pt S :=
  let th := F.radians d.rotation
  (-d.rx * F.cos th * F.sin a - d.ry * F.sin th * F.cos a,
   -d.rx * F.sin th * F.sin a + d.ry * F.cos th * F.cos a)

/-- `slice_t = radians(self.delta) / float(curves)` -/
def sliceT (F : Fn S) (d : ArcData S) (curves : Nat) : S := F.radians d.delta / (curves : S)

/-- the loop of `as_cubic_curves`: `i` = index of the next piece, `k` = pieces still to produce -/
def cubicLoop (F : Fn S) (d : ArcData S) (curves : Nat) : Nat → Nat → Pt S → S → List (Pt S × Pt S × Pt S × Pt S)
  | _, 0, _, _ => []
  | i, k + 1, pStart, cur =>
    let sl := sliceT F d curves
    let next := cur + sl
    let alpha := F.sin sl * (F.sqrt (4 + 3 * (F.tan (sl / 2) * F.tan (sl / 2))) - 1) / 3
    let e1 := ePrime F d cur
    let pEnd := if i + 1 = curves then (d.ex, d.ey) else ellipsePt F d next
    let e2 := ePrime F d next
    let c1 := (pStart.1 + alpha * e1.1, pStart.2 + alpha * e1.2)
    let c2 := (pEnd.1 - alpha * e2.1, pEnd.2 - alpha * e2.2)
    (pStart, c1, c2, pEnd) :: cubicLoop F d curves (i + 1) k pEnd next

/-- `list(arc.as_cubic_curves(curves))` -/
def asCubicCurves (F : Fn S) (d : ArcData S) (curves : Nat) : List (Pt S × Pt S × Pt S × Pt S) :=
  cubicLoop F d curves 0 curves (d.sx, d.sy) (F.radians d.theta)

/-- the loop of `as_quad_curves` -/
def quadLoop (F : Fn S) (d : ArcData S) (curves : Nat) : Nat → Nat → Pt S → S → List (Pt S × Pt S × Pt S)
  | _, 0, _, _ => []
  | i, k + 1, pStart, cur =>
    let sl := sliceT F d curves
    let next := cur + sl
    let mid := (next + cur) / 2
    let pEnd := if i + 1 = curves then (d.ex, d.ey) else ellipsePt F d next
    let alpha := (4 - F.cos sl) / 3
    let th := F.radians d.rotation
    let px := d.cx + alpha * (d.rx * F.cos mid * F.cos th - d.ry * F.sin mid * F.sin th)
    let py := d.cy + alpha * (d.rx * F.cos mid * F.sin th + d.ry * F.sin mid * F.cos th)
    (pStart, (px, py), pEnd) :: quadLoop F d curves (i + 1) k pEnd next

/-- `list(arc.as_quad_curves(curves))` -/
def asQuadCurves (F : Fn S) (d : ArcData S) (curves : Nat) : List (Pt S × Pt S × Pt S) :=
  quadLoop F d curves 0 curves (d.sx, d.sy) (F.radians d.theta)

end SvgVerif.Model.ArcApprox
