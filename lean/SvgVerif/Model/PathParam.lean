import SvgVerif.Model.Scalar
/-! Hand-written model of the parameter bookkeeping of `Path` in `svgpathtools/path.py`:
`_calc_lengths`, `T2t`, `t2T`, the segment search inside `Path.point`, `iscontinuous`,
`isclosed`, `continuous_subpaths`.  Statement-by-statement mirror of the Python; tied to the
code by exact correspondence on `Fraction` inputs (harness/props/c05.py). -/
namespace SvgVerif.Model.PathParam

variable {S : Type} [Add S] [Sub S] [Mul S] [Div S] [LT S] [LE S] [DecidableLT S] [DecidableLE S]
  [DecidableEq S] [OfNat S 0] [OfNat S 1]

/-- Python `sum(xs)` -/
def psum (xs : List S) : S := xs.foldl (· + ·) 0

/-- `_calc_lengths`: returns `(self._length, self._lengths)` from the segment lengths -/
def calcLengths (lens : List S) : S × List S :=
  let total := psum lens
  if total = 0 then (total, lens) else (total, lens.map (· / total))

/-- the `for seg_idx, seg_length in enumerate(self._lengths)` loop of `T2t` -/
def T2tLoop : List S → S → Nat → S → Option (Nat × S)
  | [], _, _, _ => none                                   -- falls through to `raise BugException`
  | l :: ls, T0, idx, T =>
    let T1 := T0 + l
    if T1 ≥ T then some (idx, (T - T0) / l) else T2tLoop ls T1 (idx + 1) T

/-- `Path.T2t(T)` given the cached length fractions -/
def T2t (fr : List S) (T : S) : Option (Nat × S) :=
  if T = 1 then some (fr.length - 1, 1)
  else if T = 0 then some (0, 0)
  else T2tLoop fr 0 0 T

/-- `Path.t2T(seg_idx, t)` -/
def t2T (fr : List S) (k : Nat) (t : S) : Option S :=
  match fr[k]? with
  | none => none                                           -- IndexError
  | some lk =>
    let segStart := psum (fr.take k)
    let segEnd := segStart + lk
    some ((segEnd - segStart) * t + segStart)

/-- the search loop of `Path.point(pos)`: which segment is evaluated, at which parameter -/
def pointLoop : List S → S → Nat → S → Option (Nat × S)
  | [], _, _, _ => none                                   -- `raise RuntimeError`
  | l :: ls, segStart, idx, pos =>
    let segEnd := segStart + l
    if segEnd ≥ pos then some (idx, (pos - segStart) / (segEnd - segStart))
    else pointLoop ls segEnd (idx + 1) pos

def pointIdx (fr : List S) (pos : S) : Option (Nat × S) :=
  if fr.length = 0 then none                                -- ValueError: no segments
  else if pos = 0 then some (0, pos)
  else if pos = 1 then some (fr.length - 1, pos)
  else pointLoop fr 0 0 pos

/-! ### continuity bookkeeping — law-free: only `==` on points is used -/
variable {P : Type} [DecidableEq P]

/-- a segment as far as joints are concerned: (start, end) -/
abbrev Ends (P : Type) := P × P

def isContinuous : List (Ends P) → Bool
  | [] => true
  | [_] => true
  | a :: b :: rest => a.2 = b.1 && isContinuous (b :: rest)

/-- `Path.isclosed()` for a non-empty continuous path: `start == end` -/
def isClosed (segs : List (Ends P)) : Option Bool :=
  match segs.head?, segs.getLast? with
  | some a, some z => if isContinuous segs then some (decide (a.1 = z.2)) else none  -- AssertionError
  | _, _ => none

/-- `continuous_subpaths`: `cur` is the sub-path being accumulated (reversed) -/
def subpathsAux : List (Ends P) → List (Ends P) → List (List (Ends P))
  | [], cur => [cur.reverse]
  | [a], cur => [(a :: cur).reverse]
  | a :: b :: rest, cur =>
    if a.2 ≠ b.1 then (a :: cur).reverse :: subpathsAux (b :: rest) []
    else subpathsAux (b :: rest) (a :: cur)

def continuousSubpaths (segs : List (Ends P)) : List (List (Ends P)) := subpathsAux segs []

end SvgVerif.Model.PathParam
