/-! Hand-written model of the bounding-box control logic of `svgpathtools/bezier.py`
(`bezier_real_minmax`, cubic case) and of `Path.bbox` (svgpathtools/path.py).  `sqrt` is a
parameter (`math.sqrt`); the arithmetic sub-expressions are cross-checked against the traced
definitions `Gen.C08` by bridge theorems. -/
namespace SvgVerif.Model.BBox

variable {S : Type} [Add S] [Sub S] [Mul S] [Div S] [Neg S] [LT S] [LE S] [DecidableLT S] [DecidableLE S]
  [DecidableEq S] [OfNat S 0] [OfNat S 1] [OfNat S 2] [OfNat S 3] [OfNat S 6]

/-- `bezier_point(a, t)` for a cubic (Horner form) -/
def value (a0 a1 a2 a3 t : S) : S :=
  a0 + t * (3 * (a1 - a0) + t * (3 * (a0 + a2) - 6 * a1 + t * (-a0 + 3 * (a1 - a2) + a3)))

def denom (a0 a1 a2 a3 : S) : S := a0 - 3 * a1 + 3 * a2 - a3
def delta (a0 a1 a2 a3 : S) : S := a1 * a1 - (a0 + a1) * a2 + a2 * a2 + (a0 - a1) * a3
def tau (a0 a1 a2 : S) : S := a0 - 2 * a1 + a2

/-- `local_extremizers` of `bezier_real_minmax` for a cubic coordinate; `none` when the cubic
term vanishes (the code then asks the numerical root finder) -/
def cands (sqrt : S → S) (a0 a1 a2 a3 : S) : Option (List S) :=
  if denom a0 a1 a2 a3 ≠ 0 then
    if delta a0 a1 a2 a3 ≥ 0 then
      let sq := sqrt (delta a0 a1 a2 a3)
      -- the two roots of the derivative in the cancellation-free form the code uses
      let q := if tau a0 a1 a2 ≥ 0 then tau a0 a1 a2 + sq else tau a0 a1 a2 - sq
      let r1 := q / denom a0 a1 a2 a3
      let r2 := if q ≠ 0 then (a0 - a1) / q else r1
      some ([0, 1] ++ (if 0 < r1 ∧ r1 < 1 then [r1] else []) ++ (if 0 < r2 ∧ r2 < 1 then [r2] else []))
    else some [0, 1]
  else none

/-- Python `min(xs)` / `max(xs)` of a non-empty list (first element wins ties) -/
def pmin : List S → Option S
  | [] => none
  | x :: xs => some (xs.foldl (fun m y => if y < m then y else m) x)
def pmax : List S → Option S
  | [] => none
  | x :: xs => some (xs.foldl (fun m y => if m < y then y else m) x)

/-- `bezier_real_minmax(a)` for a cubic coordinate with non-vanishing cubic term -/
def cubicMinmax (sqrt : S → S) (a0 a1 a2 a3 : S) : Option (S × S) :=
  match cands sqrt a0 a1 a2 a3 with
  | none => none
  | some cs =>
    let vals := cs.map (value a0 a1 a2 a3)
    match pmin vals, pmax vals with
    | some lo, some hi => some (lo, hi)
    | _, _ => none

/-- a box `(xmin, xmax, ymin, ymax)` -/
abbrev Box (S : Type) := S × S × S × S

/-- `Path.bbox()`: min of the xmins, max of the xmaxs, min of the ymins, max of the ymaxs -/
def pathBbox (bs : List (Box S)) : Option (Box S) :=
  match pmin (bs.map (·.1)), pmax (bs.map (·.2.1)), pmin (bs.map (·.2.2.1)), pmax (bs.map (·.2.2.2)) with
  | some a, some b, some c, some d => some (a, b, c, d)
  | _, _, _, _ => none

end SvgVerif.Model.BBox
