/-! Hand-written model of `Path.area()` for paths without arcs (`area_without_arcs`, svgpathtools/path.py):
`for seg in path: area += integral(1) - integral(0)` where `integral` is the antiderivative of
`real(seg.poly()) * imag(seg.poly()).deriv()`.  The per-segment value is written in closed form
(`∫₀¹ x(t)·y'(t) dt` for the Bernstein polynomials of the control points); the loop is a fold.  Import-free;
executed at `Rat` against the real method on exact rational control points (harness/props/c14.py), bridged to the
traced closed shapes and reasoned about in Props/C14General.lean. -/
namespace SvgVerif.Model.Area

variable {S : Type} [Add S] [Sub S] [Mul S] [Div S] [Neg S] [OfNat S 0] [OfNat S 2] [OfNat S 3] [OfNat S 6]
  [OfNat S 10] [OfNat S 20]

/-- a Bezier segment by its control points -/
inductive Seg (S : Type) where
  | line (p0 p1 : S × S)
  | quad (p0 p1 p2 : S × S)
  | cubic (p0 p1 p2 p3 : S × S)
  deriving Repr, DecidableEq

def Seg.start : Seg S → S × S
  | .line p0 _ => p0
  | .quad p0 _ _ => p0
  | .cubic p0 _ _ _ => p0

def Seg.end_ : Seg S → S × S
  | .line _ p1 => p1
  | .quad _ _ p2 => p2
  | .cubic _ _ _ p3 => p3

/-- `∫₀¹ x(t) y'(t) dt` of one segment -/
def segArea : Seg S → S
  | .line (x0, y0) (x1, y1) => -((x0 + x1) * (y0 - y1)) / 2
  | .quad (x0, y0) (x1, y1) (x2, y2) =>
    -(3 * x0 * y0 - 2 * x0 * y1 - x0 * y2 + 2 * x1 * y0 - 2 * x1 * y2 + x2 * y0 + 2 * x2 * y1 - 3 * x2 * y2) / 6
  | .cubic (x0, y0) (x1, y1) (x2, y2) (x3, y3) =>
    -(10 * x0 * y0 - 6 * x0 * y1 - 3 * x0 * y2 - x0 * y3 + 6 * x1 * y0 - 3 * x1 * y2 - 3 * x1 * y3 + 3 * x2 * y0
      + 3 * x2 * y1 - 6 * x2 * y3 + x3 * y0 + 3 * x3 * y1 + 6 * x3 * y2 - 10 * x3 * y3) / 20

/-- `area_without_arcs(path)`: the running sum of the loop -/
def pathArea (segs : List (Seg S)) : S := segs.foldl (fun acc s => acc + segArea s) 0

/-- `seg.reversed()` -/
def Seg.rev : Seg S → Seg S
  | .line p0 p1 => .line p1 p0
  | .quad p0 p1 p2 => .quad p2 p1 p0
  | .cubic p0 p1 p2 p3 => .cubic p3 p2 p1 p0

/-- `Path.reversed()` -/
def revPath (segs : List (Seg S)) : List (Seg S) := (segs.map Seg.rev).reverse

/-- a map applied to every control point -/
def Seg.map (f : S × S → S × S) : Seg S → Seg S
  | .line p0 p1 => .line (f p0) (f p1)
  | .quad p0 p1 p2 => .quad (f p0) (f p1) (f p2)
  | .cubic p0 p1 p2 p3 => .cubic (f p0) (f p1) (f p2) (f p3)

end SvgVerif.Model.Area
