import SvgVerif.Model.Scalar
/-! Hand-written model of `Arc.point_to_t` (svgpathtools/path.py), statement by statement: the two end-point
shortcuts, the rotation guard, the distance pre-filter, the four candidate angles (`±acos`, `asin`, `180 − asin`)
each normalised into the arc's angular window by the two `while` loops, the four-way matching of the `x`- and
`y`-candidates and the final range test.  `sqrt`, `degrees∘acos`, `degrees∘asin` and the two flavours of
`np.isclose` are parameters.  Import-free; executed at `Rat` by `Driver.lean` against the real method running on
exact rationals (harness/props/c11.py), reasoned about over ℝ in Props/C11PointToT.lean. -/
namespace SvgVerif.Model.ArcPointToT

variable {S : Type} [Add S] [Sub S] [Mul S] [Div S] [Neg S] [LT S] [LE S] [DecidableLT S] [DecidableLE S]
  [DecidableEq S] [OfNat S 0] [OfNat S 1] [OfNat S 2] [OfNat S 180] [OfNat S 360]

inductive Res (S : Type) where
  | t (v : S)
  | none
  | valueError          -- "Arc.point_to_t() only works on non-rotated Arcs."
  | fuel                -- model fuel exhausted in a `while` loop (never for the fuel the driver supplies)
  deriving Repr, DecidableEq

/-- `while a < lo: a += 360` -/
def upLoop (lo : S) : Nat → S → Option S
  | 0, _ => none
  | n + 1, a => if a < lo then upLoop lo n (a + 360) else some a

/-- `while a > hi: a -= 360` -/
def downLoop (hi : S) : Nat → S → Option S
  | 0, _ => none
  | n + 1, a => if hi < a then downLoop hi n (a - 360) else some a

/-- the pair of loops that brings a candidate angle into the window `[lo, hi]` (if it has a representative there) -/
def normAngle (fuel : Nat) (lo hi a : S) : Option S :=
  match upLoop lo fuel a with
  | none => none
  | some b => downLoop hi fuel b

def clip1 (x : S) : S := if 1 < x then 1 else if x < -1 then -1 else x

def smin (a b : S) : S := if b < a then b else a
def smax (a b : S) : S := if a < b then b else a

/-- `Arc.point_to_t(point)`.  `closeP` is `np.isclose(point, q, rtol=0, atol=1e-6)` on complex numbers, `closeS` the
default `np.isclose` on reals. -/
def pointToT (sqrt acosDeg asinDeg : S → S) (closeP : S × S → S × S → Bool) (closeS : S → S → Bool) (fuel : Nat)
    (start end_ center : S × S) (rx ry rotation theta delta : S) (p : S × S) : Res S :=
  if closeP p start then .t 0
  else if closeP p end_ then .t 1
  else if rotation ≠ 0 then .valueError
  else
    let vx := p.1 - center.1
    let vy := p.2 - center.2
    let d := sqrt (vx * vx + vy * vy)
    let minR := smin rx ry
    let maxR := smax rx ry
    if d < minR ∧ !closeS d minR then .none
    else if maxR < d ∧ !closeS d maxR then .none
    else
      let endAngle := theta + delta
      let lo := smin theta endAngle
      let hi := smax theta endAngle
      let ax := clip1 ((p.1 - center.1) / rx)
      match normAngle fuel lo hi (acosDeg ax) with
      | none => .fuel
      | some x0 =>
      match normAngle fuel lo hi (-(1 : S) * x0) with
      | none => .fuel
      | some x1 =>
      let tx0 := (x0 - theta) / delta
      let tx1 := (x1 - theta) / delta
      let ay := clip1 ((p.2 - center.2) / ry)
      match normAngle fuel lo hi (asinDeg ay) with
      | none => .fuel
      | some y0 =>
      match normAngle fuel lo hi (180 - y0) with
      | none => .fuel
      | some y1 =>
      let ty0 := (y0 - theta) / delta
      let ty1 := (y1 - theta) / delta
      let pick : Option S :=
        if closeS tx0 ty0 then some ((tx0 + ty0) / 2)
        else if closeS tx0 ty1 then some ((tx0 + ty1) / 2)
        else if closeS tx1 ty0 then some ((tx1 + ty0) / 2)
        else if closeS tx1 ty1 then some ((tx1 + ty1) / 2)
        else none
      match pick with
      | none => .none
      | some t => if 0 ≤ t ∧ t ≤ 1 then .t t else .none

end SvgVerif.Model.ArcPointToT
