import SvgVerif.Model.Scalar
/-! Hand-written model of the control logic of `svgpathtools/polytools.py`:
`polyroots` (everything after `np.roots`, which is an oracle) and `rational_limit`.
Tied to the code by the exact correspondence check `harness/props/c19.py`. -/
namespace SvgVerif.Model.Poly
open SvgVerif.Model

variable {α : Type}

/-- `itertools.combinations(xs, 2)` over `enumerate(xs)`: index pairs `(i, j)`, `i < j`,
in lexicographic order, with the elements. -/
def idxPairs : Nat → List α → List ((Nat × α) × (Nat × α))
  | _, [] => []
  | i, x :: xs => (xs.zipIdx (i + 1)).map (fun (y, j) => ((i, x), (j, y))) ++ idxPairs (i + 1) xs

/-- `polyroots`' duplicate filter as repaired: a root is dropped iff some *earlier*
root (of the list being filtered) is close to it.  `seen` = the roots before `x`. -/
def dedupAux (close : α → α → Bool) (seen : List α) : List α → List α
  | [] => []
  | x :: xs =>
    if seen.any (fun y => close y x) then dedupAux close (seen ++ [x]) xs
    else x :: dedupAux close (seen ++ [x]) xs

def dedup (close : α → α → Bool) (rs : List α) : List α := dedupAux close [] rs

/-- the list `polyroots` built before the repair: position of the *pair* in
`combinations(roots, 2)`, used as if it were a root index (defect F16) -/
def duplicatesBuggy (close : α → α → Bool) (rs : List α) : List Nat :=
  (((idxPairs 0 rs).zipIdx).filter (fun (p, _) => close p.1.2 p.2.2)).map (fun (_, k) => k)

/-- final comprehension `[r for idx, r in enumerate(roots) if idx not in duplicates]` -/
def dropIdx (dups : List Nat) (rs : List α) : List α :=
  (rs.zipIdx.filter (fun (_, i) => !dups.contains i)).map (·.1)

def dedupBuggy (close : α → α → Bool) (rs : List α) : List α := dropIdx (duplicatesBuggy close rs) rs

variable {S : Type} [Add S] [Sub S] [Mul S] [Div S] [Neg S] [LT S] [LE S] [DecidableLT S]
  [DecidableLE S] [DecidableEq S] [OfNat S 0] [OfNat S 1] [NatCast S]

/-- `polyroots(p, realroots=True, condition)` after `np.roots`: `roots` are (re, im) pairs -/
def polyrootsReal (rtol atol : S) (cond : S → Bool) (roots : List (S × S)) : List S :=
  let re := (roots.filter (fun r => isclose rtol atol r.2 0)).map (·.1)
  let re := re.filter cond
  dedup (isclose rtol atol) re

def polyroots01 (rtol atol : S) (roots : List (S × S)) : List S :=
  polyrootsReal rtol atol (fun t => decide (0 ≤ t) && decide (t ≤ 1)) roots

/-! ### polynomials as coefficient lists, highest power first (numpy order) -/

def peval (cs : List S) (t : S) : S := cs.foldl (fun acc c => acc * t + c) 0

/-- `np.poly1d.deriv()` on a trimmed coefficient list -/
def pderiv : List S → List S
  | [] => []
  | [_] => []
  | c :: cs => ((cs.length : Nat) : S) * c :: pderiv cs

inductive LimResult (S : Type) where
  | value (v : S)
  | noLimit            -- `raise ValueError("Limit does not exist.")`
  | fuel               -- model fuel exhausted (never happens for g ≠ 0; see theorem)
  deriving Repr, DecidableEq

/-- `rational_limit(f, g, t0)`; `fuel` bounds the recursion (degree of g + 1 suffices) -/
def rationalLimit : Nat → List S → List S → S → LimResult S
  | 0, _, _, _ => .fuel
  | n + 1, f, g, t0 =>
    if peval g t0 ≠ 0 then .value (peval f t0 / peval g t0)
    else if peval f t0 = 0 then rationalLimit n (pderiv f) (pderiv g) t0
    else .noLimit

end SvgVerif.Model.Poly
