/-! Hand-written model of the length cache of `CubicBezier.length(0, 1, error, min_depth)`
(svgpathtools/path.py): `_length_info = {length, bpoints, error, min_depth}`.  `compute` is the
integrator (scipy quad or the recursive fallback), an oracle.  Tied to the code by the
correspondence stream "cubic-length-cache" (harness/props/c16.py). -/
namespace SvgVerif.Model.CubicCache

variable {B E D V : Type} [DecidableEq B] [LE E] [DecidableLE E] [LE D] [DecidableLE D]

structure CubCache (B E D V : Type) where
  bpoints : B
  error : E
  minDepth : D
  value : V

/-- `CubicBezier.length(0, 1, error, min_depth)` with its cache (as repaired, finding F11:
a cached value is reused only if it was computed for an error bound at least as strict
and a depth at least as large) -/
def cubicLength (compute : B → E → D → V) (cache : Option (CubCache B E D V)) (bp : B) (e : E) (d : D) :
    V × Option (CubCache B E D V) :=
  match cache with
  | some c =>
    if c.bpoints = bp ∧ c.error ≤ e ∧ d ≤ c.minDepth then (c.value, cache)
    else (compute bp e d, some ⟨bp, e, d, compute bp e d⟩)
  | none => (compute bp e d, some ⟨bp, e, d, compute bp e d⟩)

/-- the hit rule before the repair: `cached.error >= error` -/
def cubicLengthBuggy (compute : B → E → D → V) (cache : Option (CubCache B E D V)) (bp : B) (e : E) (d : D) :
    V × Option (CubCache B E D V) :=
  match cache with
  | some c =>
    if c.bpoints = bp ∧ e ≤ c.error ∧ d ≤ c.minDepth then (c.value, cache)
    else (compute bp e d, some ⟨bp, e, d, compute bp e d⟩)
  | none => (compute bp e d, some ⟨bp, e, d, compute bp e d⟩)


end SvgVerif.Model.CubicCache
