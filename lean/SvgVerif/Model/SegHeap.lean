/-! Hand-written model of the length cache of Bezier segments as a HEAP: several segment objects, each pointing to a
cache record (`_length_info`, a dict), records possibly SHARED between objects.  Sharing arises in the code in two ways:
`CubicBezier.reversed()` hands its own record to the reversed copy when a length is cached (and re-labels the record's
`bpoints` to the reversed control points), and `copy.copy(seg)` copies the reference.  Operations:

* `new bp`            — constructor: a fresh, empty record
* `setBp o bp`        — assignment to `start` / `control1` / `control2` / `end` of object `o`
* `length o e d`      — `o.length(error=e, min_depth=d)` (full length): hit iff the record was computed for exactly the
                         object's current control points, an error bound at least as strict and a depth at least as large
* `reversed o`        — `o.reversed()` (as repaired: the record is shared only if it is valid for `o`'s current points)
* `copy o`            — `copy.copy(o)` (shares the record), `deepcopy o` — `copy.deepcopy(o)` (own copy of the record)

`compute` (the integrator), `rev` (reversal of the control-point tuple) and `truthy` (Python truthiness of the cached
length: `None` and `0.0` are falsy) are parameters.  Tied to the code by the correspondence stream "segment-heap"
(harness/props/c16.py).  Import-free. -/
namespace SvgVerif.Model.SegHeap

variable {B E D V : Type} [DecidableEq B] [LE E] [DecidableLE E] [LE D] [DecidableLE D]

/-- the dict `_length_info`; `none` = the initial `{'length': None, 'bpoints': None, ...}` -/
structure Rec (B E D V : Type) where
  bpoints : B
  error : E
  minDepth : D
  value : V

structure Obj (B : Type) where
  bp : B
  cell : Nat

structure Heap (B E D V : Type) where
  objs : List (Obj B)
  cells : List (Option (Rec B E D V))

inductive Op (B E D : Type) where
  | new (bp : B)
  | setBp (o : Nat) (bp : B)
  | length (o : Nat) (e : E) (d : D)
  | reversed (o : Nat)
  | copy (o : Nat)
  | deepcopy (o : Nat)

def Heap.empty : Heap B E D V := ⟨[], []⟩

def setAt {α : Type} (l : List α) (i : Nat) (a : α) : List α := l.set i a

/-- one operation; the output is the value a `length` request returns (`none` for the other operations and for
requests on objects that do not exist).  `fixed = false` gives `reversed()` as it was before the repair (the record is
handed over whenever its length is truthy, valid or not). -/
def step (fixed : Bool) (compute : B → E → D → V) (rev : B → B) (truthy : V → Bool) (h : Heap B E D V) :
    Op B E D → Heap B E D V × Option V
  | .new bp => (⟨h.objs ++ [⟨bp, h.cells.length⟩], h.cells ++ [none]⟩, none)
  | .setBp o bp =>
    match h.objs[o]? with
    | some ob => (⟨setAt h.objs o ⟨bp, ob.cell⟩, h.cells⟩, none)
    | none => (h, none)
  | .length o e d =>
    match h.objs[o]? with
    | some ob =>
      match h.cells[ob.cell]? with
      | some (some r) =>
        if r.bpoints = ob.bp ∧ r.error ≤ e ∧ d ≤ r.minDepth then (h, some r.value)
        else (⟨h.objs, setAt h.cells ob.cell (some ⟨ob.bp, e, d, compute ob.bp e d⟩)⟩, some (compute ob.bp e d))
      | _ => (⟨h.objs, setAt h.cells ob.cell (some ⟨ob.bp, e, d, compute ob.bp e d⟩)⟩, some (compute ob.bp e d))
    | none => (h, none)
  | .reversed o =>
    match h.objs[o]? with
    | some ob =>
      match h.cells[ob.cell]? with
      | some (some r) =>
        if truthy r.value && (!fixed || decide (r.bpoints = ob.bp)) then
          (⟨h.objs ++ [⟨rev ob.bp, ob.cell⟩], setAt h.cells ob.cell (some ⟨rev ob.bp, r.error, r.minDepth, r.value⟩)⟩, none)
        else (⟨h.objs ++ [⟨rev ob.bp, h.cells.length⟩], h.cells ++ [none]⟩, none)
      | _ => (⟨h.objs ++ [⟨rev ob.bp, h.cells.length⟩], h.cells ++ [none]⟩, none)
    | none => (h, none)
  | .copy o =>
    match h.objs[o]? with
    | some ob => (⟨h.objs ++ [⟨ob.bp, ob.cell⟩], h.cells⟩, none)
    | none => (h, none)
  | .deepcopy o =>
    match h.objs[o]? with
    | some ob => (⟨h.objs ++ [⟨ob.bp, h.cells.length⟩], h.cells ++ [(h.cells[ob.cell]?).join]⟩, none)
    | none => (h, none)

/-- a whole history from the empty heap: the outputs in order -/
def run (fixed : Bool) (compute : B → E → D → V) (rev : B → B) (truthy : V → Bool) :
    Heap B E D V → List (Op B E D) → List (Option V)
  | _, [] => []
  | h, op :: ops =>
    let r := step fixed compute rev truthy h op
    r.2 :: run fixed compute rev truthy r.1 ops

end SvgVerif.Model.SegHeap
