/-! Hand-written model of `Path._tokenize_path` (svgpathtools/path.py):
`COMMAND_RE.split(pathdef)` followed by `FLOAT_RE.findall` on every piece, with
`FLOAT_RE = [-+]?(?:[0-9]+\.?[0-9]*|\.[0-9]+)(?:[eE][-+]?[0-9]+)?` (as repaired: a digit sequence followed by a
bare dot, `1.` / `1.e2`, is a number in the SVG grammar).  A deterministic scanner that makes the
same choices as Python's backtracking matcher; tied to the real tokenizer by exhaustive
correspondence on short strings over the characters that matter. -/
namespace SvgVerif.Model.Lexer

def isCmd (c : Char) : Bool := "MmZzLlHhVvCcSsQqTtAa".toList.contains c
def isDigit (c : Char) : Bool := '0' ≤ c && c ≤ '9'
def isSign (c : Char) : Bool := c == '-' || c == '+'

inductive RawTok where
  | cmd (c : Char)
  | num (s : List Char)
  deriving Repr, DecidableEq

def takeDigits : List Char → List Char × List Char
  | c :: r => if isDigit c then let (d, r') := takeDigits r; (c :: d, r') else ([], c :: r)
  | [] => ([], [])

/-- `[-+]?` -/
def stripSign (cs : List Char) : List Char × List Char :=
  match cs with
  | c :: r => if isSign c then ([c], r) else ([], cs)
  | [] => ([], [])

/-- `(?:[0-9]+\.?[0-9]*|\.[0-9]+)`: digits, then an optional dot and optional further digits; or, when no
digit comes first, a dot followed by at least one digit.  (Nothing after the mantissa can make the overall
match fail, so Python's matcher never backtracks into it.) -/
def mantissa (r0 : List Char) : Option (List Char × List Char) :=
  let (d1, r1) := takeDigits r0
  if d1 ≠ [] then
    match r1 with
    | '.' :: r2 =>
      let (d2, r3) := takeDigits r2
      some (d1 ++ '.' :: d2, r3)
    | _ => some (d1, r1)
  else
    match r1 with
    | '.' :: r2 =>
      let (d2, r3) := takeDigits r2
      if d2 ≠ [] then some ('.' :: d2, r3) else none
    | _ => none

/-- `(?:[eE][-+]?[0-9]+)?` after the text `pre` matched so far: (whole match, rest) -/
def exponent (pre r : List Char) : List Char × List Char :=
  match r with
  | e :: q =>
    if e == 'e' || e == 'E' then
      let (es, q2) := stripSign q
      let (ed, q3) := takeDigits q2
      if ed ≠ [] then (pre ++ e :: es ++ ed, q3) else (pre, r)
    else (pre, r)
  | [] => (pre, r)

/-- try to match FLOAT_RE at the head of the input; returns (matched text, rest) -/
def matchFloat (cs : List Char) : Option (List Char × List Char) :=
  let (sign, r0) := stripSign cs
  match mantissa r0 with
  | none => none
  | some (m, r) => some (exponent (sign ++ m) r)

/-- `_tokenize_path`; `fuel` = input length + 1 -/
def lex : Nat → List Char → List RawTok
  | 0, _ => []
  | _, [] => []
  | n + 1, c :: r =>
    if isCmd c then .cmd c :: lex n r
    else
      match matchFloat (c :: r) with
      | some (m, rest) =>
        -- a match consumes at least one character; guard the recursion anyway
        if rest.length < (c :: r).length then .num m :: lex n rest else lex n r
      | none => lex n r

def tokenize (s : List Char) : List RawTok := lex (s.length + 1) s

end SvgVerif.Model.Lexer
