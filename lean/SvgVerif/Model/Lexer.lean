/-! Hand-written model of `Path._tokenize_path` (svgpathtools/path.py):
`COMMAND_RE.split(pathdef)` followed by `FLOAT_RE.findall` on every piece, with
`FLOAT_RE = [-+]?[0-9]*\.?[0-9]+(?:[eE][-+]?[0-9]+)?`.  A deterministic scanner that makes the
same choices as Python's backtracking matcher; tied to the real tokenizer by exhaustive
correspondence on short strings over the characters that matter. -/
namespace SvgVerif.Model.Lexer

def isCmd (c : Char) : Bool := "MmZzLlHhVvCcSsQqTtAa".toList.contains c
def isDigit (c : Char) : Bool := '0' ≤ c && c ≤ '9'
def isSign (c : Char) : Bool := c == '-' || c == '+'

inductive RawTok where
  | cmd (c : Char)
  | num (s : List Char)
  deriving Repr, DecidableEq

def takeDigits : List Char → List Char × List Char
  | c :: r => if isDigit c then let (d, r') := takeDigits r; (c :: d, r') else ([], c :: r)
  | [] => ([], [])

/-- `[-+]?` -/
def stripSign (cs : List Char) : List Char × List Char :=
  match cs with
  | c :: r => if isSign c then ([c], r) else ([], cs)
  | [] => ([], [])

/-- `[0-9]*\.?[0-9]+` with Python's backtracking: digits, then `.digits` if at least one digit follows the dot,
otherwise the digits alone (which must then be non-empty) -/
def mantissa (r0 : List Char) : Option (List Char × List Char) :=
  let (d1, r1) := takeDigits r0
  match r1 with
  | '.' :: r2 =>
    let (d2, r3) := takeDigits r2
    if d2 ≠ [] then some (d1 ++ '.' :: d2, r3)
    else if d1 ≠ [] then some (d1, r1) else none
  | _ => if d1 ≠ [] then some (d1, r1) else none

/-- `(?:[eE][-+]?[0-9]+)?` after the text `pre` matched so far: (whole match, rest) -/
def exponent (pre r : List Char) : List Char × List Char :=
  match r with
  | e :: q =>
    if e == 'e' || e == 'E' then
      let (es, q2) := stripSign q
      let (ed, q3) := takeDigits q2
      if ed ≠ [] then (pre ++ e :: es ++ ed, q3) else (pre, r)
    else (pre, r)
  | [] => (pre, r)

/-- try to match FLOAT_RE at the head of the input; returns (matched text, rest) -/
def matchFloat (cs : List Char) : Option (List Char × List Char) :=
  let (sign, r0) := stripSign cs
  match mantissa r0 with
  | none => none
  | some (m, r) => some (exponent (sign ++ m) r)

/-- `_tokenize_path`; `fuel` = input length + 1 -/
def lex : Nat → List Char → List RawTok
  | 0, _ => []
  | _, [] => []
  | n + 1, c :: r =>
    if isCmd c then .cmd c :: lex n r
    else
      match matchFloat (c :: r) with
      | some (m, rest) =>
        -- a match consumes at least one character; guard the recursion anyway
        if rest.length < (c :: r).length then .num m :: lex n rest else lex n r
      | none => lex n r

def tokenize (s : List Char) : List RawTok := lex (s.length + 1) s

end SvgVerif.Model.Lexer
