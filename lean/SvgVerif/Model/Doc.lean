import SvgVerif.Model.Flatten
/-! Hand-written model of the writing side of `svgpathtools/document.py` and of what the readers
see, at the level of the element tree (XML text, `svgwrite`, `minidom` and `ElementTree` are outside
the model): `Document.get_or_add_group`, `add_group`, `add_path`, `Document.paths()` (through the
flattening model of `Model/Flatten.lean`), the file written by `wsvg`, and the attribute
dictionaries the readers return.  Path elements are identified by a number; their `d` strings and
attributes live in a table owned by the harness / the theorems. -/
namespace SvgVerif.Model.Doc
open SvgVerif.Model.Flatten

/-- a group element in the SVG namespace (or the root): the value of its `id` attribute, the
path elements directly inside it (document order), its child groups (document order) -/
inductive DGrp where
  | mk (name : String) (paths : List Nat) (kids : List DGrp)
  deriving Repr

namespace DGrp
def name : DGrp → String | mk n _ _ => n
def paths : DGrp → List Nat | mk _ p _ => p
def kids : DGrp → List DGrp | mk _ _ k => k
end DGrp

mutual
  /-- every path element below `g`, recursive descent -/
  def allPaths : DGrp → List Nat
    | .mk _ ps kids => ps ++ allPathsList kids
  def allPathsList : List DGrp → List Nat
    | [] => []
    | g :: gs => allPaths g ++ allPathsList gs
end

mutual
  /-- `SubElement(group, 'path', …)` in the group reached by `names` from `g`, creating the missing
  groups (`get_or_add_group`: the first child group whose id matches is entered; if none matches,
  the whole remaining chain is created at the end of the children) -/
  def addPath (pid : Nat) : List String → DGrp → DGrp
    | [], .mk n ps kids => .mk n (ps ++ [pid]) kids
    | nm :: rest, .mk n ps kids => .mk n ps (addPathKids pid nm rest kids)
  def addPathKids (pid : Nat) (nm : String) (rest : List String) : List DGrp → List DGrp
    | [] => [freshChain pid (nm :: rest)]
    | k :: ks => if k.name = nm then addPath pid rest k :: ks else k :: addPathKids pid nm rest ks
  /-- the chain of new groups `names`, the innermost holding the new path -/
  def freshChain (pid : Nat) : List String → DGrp
    | [] => .mk "" [pid] []           -- not reachable from `addPathKids`
    | [nm] => .mk nm [pid] []
    | nm :: rest => .mk nm [] [freshChain pid rest]
end

mutual
  /-- `get_or_add_group(names)` alone (no path added) -/
  def addGroup : List String → DGrp → DGrp
    | [], g => g
    | nm :: rest, .mk n ps kids => .mk n ps (addGroupKids nm rest kids)
  def addGroupKids (nm : String) (rest : List String) : List DGrp → List DGrp
    | [] => [emptyChain (nm :: rest)]
    | k :: ks => if k.name = nm then addGroup rest k :: ks else k :: addGroupKids nm rest ks
  def emptyChain : List String → DGrp
    | [] => .mk "" [] []
    | [nm] => .mk nm [] []
    | nm :: rest => .mk nm [] [emptyChain rest]
end

mutual
  /-- `get_group(names)`: at every level the FIRST child group whose id matches; `None` when a name
  is not found among the direct children -/
  def getGroup : List String → DGrp → Option DGrp
    | [], g => some g
    | nm :: rest, .mk _ _ kids => getGroupKids nm rest kids
  def getGroupKids (nm : String) (rest : List String) : List DGrp → Option DGrp
    | [] => none
    | k :: ks => if k.name = nm then getGroup rest k else getGroupKids nm rest ks
end

mutual
  /-- `add_group({'id': nm}, parent)` with `parent` the group reached by `parentNames`: a new empty
  group appended after the parent's children, whether or not a group of that name exists already -/
  def rawGroup (nm : String) : List String → DGrp → DGrp
    | [], .mk n ps kids => .mk n ps (kids ++ [.mk nm [] []])
    | p :: rest, .mk n ps kids => .mk n ps (rawGroupKids nm p rest kids)
  def rawGroupKids (nm p : String) (rest : List String) : List DGrp → List DGrp
    | [] => []
    | k :: ks => if k.name = p then rawGroup nm rest k :: ks else k :: rawGroupKids nm p rest ks
end

mutual
  /-- the flattening model's view of the document: every path is a shape of kind 0 (`'path'`) -/
  def toGrp : DGrp → Grp Unit
    | .mk _ ps kids => .mk 0 () (ps.map (fun p => { kind := 0, id := p, tf := () })) (toGrpList kids)
  def toGrpList : List DGrp → List (Grp Unit)
    | [] => []
    | g :: gs => toGrp g :: toGrpList gs
end

/-- the identifiers of the paths `Document.paths()` returns, in the order it returns them -/
def docPaths (t : DGrp) : Option (List Nat) :=
  (flattenedPaths (fun _ _ => ()) () (fun _ => true) (fun _ => true) (toGrp t)).map (·.map Prod.fst)

inductive Op where
  | addPath (names : List String) (pid : Nat)
  | addGroup (names : List String)
  /-- `add_group({'id': nm}, parent=get_group(parent))`; `get_group` returning `None` means the root -/
  | rawGroup (parent : List String) (nm : String)
  /-- `paths_from_group(names)`: a query, the tree is unchanged -/
  | query (names : List String)
  deriving Repr

def applyOp (t : DGrp) : Op → DGrp
  | .addPath names pid => addPath pid names t
  | .addGroup names => addGroup names t
  | .rawGroup parent nm => if (getGroup parent t).isSome then rawGroup nm parent t else rawGroup nm [] t
  | .query _ => t

/-- what `paths_from_group(names)` returns, as the set of path ids below the group (`[]` with a
warning when the group does not exist) -/
def queryGroup (names : List String) (t : DGrp) : List Nat :=
  match getGroup names t with
  | some g => allPaths g
  | none => []

/-- the answers of the queries of a history, in order -/
def runQueries : DGrp → List Op → List (List Nat)
  | _, [] => []
  | t, .query names :: ops => queryGroup names t :: runQueries t ops
  | t, op :: ops => runQueries (applyOp t op) ops

def run (t : DGrp) (ops : List Op) : DGrp := ops.foldl applyOp t

/-! ### attributes -/
/-- svgwrite's keyword convention: `stroke_width=` becomes the attribute `stroke-width` -/
def renameKey (k : String) : String := k.map (fun c => if c = '_' then '-' else c)

/-- the attributes of the element `wsvg(paths, attributes=[…])` writes for one path -/
def wsvgAttrs (d : String) (attrs : List (String × String)) : List (String × String) :=
  ("d", d) :: (attrs.filter (fun kv => kv.1 ≠ "d")).map (fun kv => (renameKey kv.1, kv.2))

/-- the file written by `wsvg` for `n` paths: all of them directly below the root, in order -/
def wsvgDoc (n : Nat) : DGrp := .mk "" (List.range n) []

end SvgVerif.Model.Doc
