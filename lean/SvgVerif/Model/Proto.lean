/-! Line-protocol helpers for `Driver.lean` (core Lean only): exact rationals cross
the pipe as `num/den` text, never as decimal floats. -/
namespace SvgVerif.Model.Proto

def parseInt? (s : String) : Option Int :=
  if s.startsWith "-" then (s.drop 1).toNat?.map (fun n => -(n : Int))
  else if s.startsWith "+" then (s.drop 1).toNat?.map (fun n => (n : Int))
  else s.toNat?.map (fun n => (n : Int))

def parseRat? (s : String) : Option Rat :=
  match s.splitOn "/" with
  | [n] => (parseInt? n).map (fun i => (i : Rat))
  | [n, d] => do
      let i ← parseInt? n
      let k ← d.toNat?
      if k = 0 then none else some ((i : Rat) / (k : Rat))
  | _ => none

def showRat (q : Rat) : String :=
  if q.den = 1 then toString q.num else s!"{q.num}/{q.den}"

def parseRats? (ws : List String) : Option (List Rat) := ws.mapM parseRat?

def showRats (qs : List Rat) : String := " ".intercalate (qs.map showRat)

def words (s : String) : List String := (s.splitOn " ").filter (· ≠ "")

/-- split a word list at the separator `|` -/
def splitBar (ws : List String) : List (List String) :=
  let rec go (acc : List String) (rest : List String) (out : List (List String)) : List (List String) :=
    match rest with
    | [] => (acc.reverse :: out).reverse
    | "|" :: r => go [] r (acc.reverse :: out)
    | w :: r => go (w :: acc) r out
  go [] ws []

def pairUp {α} : List α → Option (List (α × α))
  | [] => some []
  | a :: b :: r => (pairUp r).map ((a, b) :: ·)
  | _ => none

end SvgVerif.Model.Proto
