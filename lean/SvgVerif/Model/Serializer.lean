import SvgVerif.Spec.SvgPath
/-! Hand-written model of `Path.d(useSandT, use_closed_attrib, rel)` (svgpathtools/path.py) at
command level: which commands, with which arguments, are emitted for a list of segments.
(Rendering of numbers is `repr(float)`; tied at token level by the correspondence check.)
Law-free apart from the subtraction used by the relative form. -/
namespace SvgVerif.Model.Serializer
open SvgVerif.Model.Parser SvgVerif.Spec.SvgPath

variable {S : Type} [Add S] [Sub S] [DecidableEq S] [OfNat S 0] [OfNat S 1]

structure Opts where
  useSandT : Bool
  useClosedAttrib : Bool
  rel : Bool
  deriving Repr, DecidableEq

def segStart : Seg S → Pt S
  | .line a _ | .quad a _ _ | .cubic a _ _ _ | .arc a _ _ _ _ _ => a
def segEnd : Seg S → Pt S
  | .line _ b | .quad _ _ b | .cubic _ _ _ b | .arc _ _ _ _ _ b => b
def isLine : Seg S → Bool
  | .line .. => true
  | _ => false

/-- `Path.iscontinuous()` -/
def continuous : List (Seg S) → Bool
  | [] => true
  | [_] => true
  | a :: b :: r => segEnd a = segStart b && continuous (b :: r)

/-- `CubicBezier.is_smooth_from(previous)` / `QuadraticBezier.is_smooth_from(previous)` as repaired
(finding F3): the test is the very expression the parser uses to rebuild the control point -/
def smoothFrom (seg : Seg S) (prev : Option (Seg S)) : Bool :=
  match seg, prev with
  | .cubic a c1 _ _, some (.cubic _ _ pc2 pb) => a = pb && c1 = psub (padd a a) pc2
  | .cubic a c1 _ _, _ => c1 = a
  | .quad a c _, some (.quad _ pc pb) => a = pb && c = psub (padd a a) pc
  | .quad a c _, _ => c = a
  | _, _ => false

/-- argument as written: absolute, or the difference to `seg_start` in relative form -/
def out (rel : Bool) (base p : Pt S) : Pt S := if rel then psub p base else p

/-- the command emitted for one segment (after the optional moveto) -/
def segCmd (o : Opts) (prev : Option (Seg S)) (seg : Seg S) : Cmd S :=
  let a := !o.rel
  match seg with
  | .line s e => .L a (out o.rel s e)
  | .cubic s c1 c2 e =>
    if o.useSandT && smoothFrom seg prev then .Sm a (out o.rel s c2) (out o.rel s e)
    else .C a (out o.rel s c1) (out o.rel s c2) (out o.rel s e)
  | .quad s c e =>
    if o.useSandT && smoothFrom seg prev then .T a (out o.rel s e)
    else .Q a (out o.rel s c) (out o.rel s e)
  | .arc s r rot l sw e =>
    .A a r rot (if l then 1 else 0) (if sw then 1 else 0) (out o.rel s e)

/-- the `for segment in segments` loop: `cur` = `current_pos`, `prev` = `previous_segment`,
`selfClosed`, `endPt` = `self[-1].end`.  As repaired (finding F2) `previous_segment` is forgotten
when a moveto is emitted. -/
def loopCmds (o : Opts) (selfClosed : Bool) (endPt : Pt S) :
    Option (Pt S) → Option (Seg S) → List (Seg S) → List (Cmd S)
  | _, _, [] => []
  | cur, prev, seg :: rest =>
    let s := segStart seg
    let needM := cur ≠ some s || (selfClosed && s = endPt && o.useClosedAttrib)
    let mv : List (Cmd S) :=
      if needM then
        [.M (!o.rel) (match cur with
          | some c => out o.rel c s
          | none => s)]
      else []
    let prev' := if needM then none else prev
    mv ++ segCmd o prev' seg :: loopCmds o selfClosed endPt (some (segEnd seg)) (some seg) rest

/-- `Path.d(**o)` as a command list; `[]` for the empty path (the empty string).  As repaired
(finding F1) the last segment of a closed path is left to `Z` only when it is a Line. -/
def dCmds (o : Opts) (p : List (Seg S)) : List (Cmd S) :=
  match p.getLast?, p.head? with
  | some z, some a =>
    let selfClosed := o.useClosedAttrib && continuous p && segStart a = segEnd z
    let segments := if selfClosed && isLine z then p.dropLast else p
    loopCmds o selfClosed (segEnd z) none none segments ++ (if selfClosed then [.Z] else [])
  | _, _ => []

end SvgVerif.Model.Serializer
