/-! Hand-written model of the control logic of `Line.radialrange`, the candidate selection of
`bezier_radialrange` and the reduction in `Path.radialrange` (svgpathtools/path.py). -/
namespace SvgVerif.Model.Radial

variable {S : Type} [Add S] [Sub S] [Mul S] [Div S] [LT S] [LE S] [DecidableLT S] [DecidableLE S]
  [DecidableEq S] [OfNat S 0] [OfNat S 1]

/-- squared distance from `z` to the point of the line at parameter `t` -/
def lineQ (p0x p0y p1x p1y zx zy t : S) : S :=
  (p0x + (p1x - p0x) * t - zx) * (p0x + (p1x - p0x) * t - zx) + (p0y + (p1y - p0y) * t - zy) * (p0y + (p1y - p0y) * t - zy)

/-- `Line.radialrange(origin)`: `((d_min, t_min), (d_max, t_max))` -/
def lineRadial (sqrt : S → S) (p0x p0y p1x p1y zx zy : S) : (S × S) × (S × S) :=
  let dx := p1x - p0x
  let dy := p1y - p0y
  let t := (dx * (zx - p0x) + dy * (zy - p0y)) / (dx * dx + dy * dy)
  let d0 := sqrt (lineQ p0x p0y p1x p1y zx zy 0)
  let d1 := sqrt (lineQ p0x p0y p1x p1y zx zy 1)
  if 0 < t ∧ t < 1 then
    let dt := sqrt (lineQ p0x p0y p1x p1y zx zy t)
    if d0 < d1 then ((dt, t), (d1, 1)) else ((dt, t), (d0, 0))
  else
    if d0 < d1 then ((d0, 0), (d1, 1)) else ((d1, 1), (d0, 0))

/-- Python `min(extrema, key=itemgetter(0))`: the first element with minimal key -/
def firstMin : List (S × S) → Option (S × S)
  | [] => none
  | x :: xs => some (xs.foldl (fun m y => if y.1 < m.1 then y else m) x)
def firstMax : List (S × S) → Option (S × S)
  | [] => none
  | x :: xs => some (xs.foldl (fun m y => if m.1 < y.1 then y else m) x)

/-- `bezier_radialrange`: `dist t = abs(seg.point(t) - origin)`, `roots = polyroots01(r_squared.deriv())` -/
def bezierRadial (dist : S → S) (roots : List S) : Option ((S × S) × (S × S)) :=
  let extrema := ([0, 1] ++ roots).map (fun t => (dist t, t))
  match firstMin extrema, firstMax extrema with
  | some a, some b => some (a, b)
  | _, _ => none

/-- one comparison of the minimum reduction (`global_min` starts as `(inf, None, None)`) -/
def stepMin (gmin : Option (S × S × Nat)) (smin : S × S) (idx : Nat) : Option (S × S × Nat) :=
  match gmin with
  | none => some (smin.1, smin.2, idx)             -- anything is below +inf
  | some g => if smin.1 < g.1 then some (smin.1, smin.2, idx) else some g

/-- one comparison of the maximum reduction (`global_max` starts as `(0, None, None)`) -/
def stepMax (gmax : Option (S × S × Nat)) (smax : S × S) (idx : Nat) : Option (S × S × Nat) :=
  match gmax with
  | none => if 0 < smax.1 then some (smax.1, smax.2, idx) else none
  | some g => if g.1 < smax.1 then some (smax.1, smax.2, idx) else some g

/-- `Path.radialrange`: per-segment `((dmin,tmin),(dmax,tmax))`, reduced with strict comparisons -/
def pathRadialLoop : List ((S × S) × (S × S)) → Nat → Option (S × S × Nat) → Option (S × S × Nat) →
    Option (S × S × Nat) × Option (S × S × Nat)
  | [], _, gmin, gmax => (gmin, gmax)
  | (smin, smax) :: rest, idx, gmin, gmax =>
    pathRadialLoop rest (idx + 1) (stepMin gmin smin idx) (stepMax gmax smax idx)

def pathRadial (rs : List ((S × S) × (S × S))) : Option (S × S × Nat) × Option (S × S × Nat) :=
  pathRadialLoop rs 0 none none

end SvgVerif.Model.Radial
