import SvgVerif.Model.PathParam
/-! Hand-written model of `Path` as a *mutable* object (svgpathtools/path.py): the segment
list together with the caches `_length`, `_lengths`, `_start`, `_end`, the mutators
`__setitem__` (index and slice), `__delitem__`, `insert`, the `start` / `end` setters, the
`MutableSequence` mix-ins derived from them exactly as `collections.abc` derives them, and the
queries `length`, `T2t`, `point`, `start`, `end`.  Queries are operations too: they fill caches.

Law-free: segment lengths come from an uninterpreted `len`, points are compared with `==` only.
Segments are values (aliasing of one segment object inside two paths is not modelled). -/
namespace SvgVerif.Model.PathState
open SvgVerif.Model.PathParam

structure Seg (P : Type) where
  start : P
  stop : P
  deriving DecidableEq, Repr

structure PState (P L A : Type) where
  segs : List (Seg P)
  length : Option L            -- `_length`
  lengths : Option (List L)    -- `_lengths`
  params : Option A            -- `_length_params`: the (error, min_depth) the cache was computed with
  start : Option P             -- `_start`
  stop : Option P              -- `_end`
  deriving Repr

inductive Op (P L A : Type) where
  | setItem (i : Int) (v : Seg P)
  | setSlice (a b : Int) (vs : List (Seg P))
  | delItem (i : Int)
  | insert (i : Int) (v : Seg P)
  | append (v : Seg P)
  | extend (vs : List (Seg P))
  | pop (i : Int)
  | reverse
  | setStart (p : P)
  | setEnd (p : P)
  -- queries (they may fill caches)
  | qLength
  | qLengthAt (a : A)            -- `length(error=…, min_depth=…)` with non-default accuracy
  | qT2t (T : L)
  | qPoint (T : L)
  | qStart
  | qEnd
  deriving Repr

inductive Out (P L : Type) where
  | unit
  | seg (s : Seg P)
  | len (l : L)
  | idxT (r : Option (Nat × L))      -- `none` = BugException / RuntimeError / ValueError
  | pt (p : Option P)
  | emptyLast                         -- `T2t(1)` on an empty path returns `(len(self)-1, 1) = (-1, 1)`
  | indexError                        -- raised; the state returned is the partial effect
  deriving DecidableEq, Repr

section
variable {P L A : Type} [DecidableEq P] [DecidableEq A] [Add L] [Sub L] [Mul L] [Div L] [LT L] [LE L] [DecidableLT L]
  [DecidableLE L] [DecidableEq L] [OfNat L 0] [OfNat L 1]

/-- `Path(*segs)` -/
def fresh (segs : List (Seg P)) : PState P L A :=
  { segs := segs, length := none, lengths := none, params := none,
    start := segs.head?.map (·.start), stop := segs.getLast?.map (·.stop) }

/-- Python index normalisation for `list[i]`: `none` = IndexError -/
def normIdx (n : Nat) (i : Int) : Option Nat :=
  if 0 ≤ i then (if i.toNat < n then some i.toNat else none)
  else (if (-i).toNat ≤ n then some (n - (-i).toNat) else none)

/-- Python slice bound clamping for `list[a:b]` -/
def clampIdx (n : Nat) (i : Int) : Nat :=
  if 0 ≤ i then min i.toNat n else n - min (-i).toNat n

/-- refresh `_start` / `_end` from the segments (the two assignments at the end of
`__setitem__` and `insert`); `none` if the list is empty (IndexError) -/
def refreshEnds (s : PState P L A) : Option (PState P L A) :=
  match s.segs.head?, s.segs.getLast? with
  | some a, some z => some { s with start := some a.start, stop := some z.stop }
  | _, _ => none

/-- tail of `__setitem__` / `insert`: refresh the end caches; on an empty list the indexing
`self._segments[0]` raises and the partial effect remains -/
def finish (s1 : PState P L A) : PState P L A × Out P L :=
  match refreshEnds s1 with
  | some s2 => (s2, .unit)
  | none => (s1, .indexError)

/-- tail of `__delitem__`: empty list is handled (caches set to None) -/
def delFinish (s1 : PState P L A) : PState P L A × Out P L :=
  match refreshEnds s1 with
  | some s2 => (s2, .unit)
  | none => ({ s1 with start := none, stop := none }, .unit)

def setItem (s : PState P L A) (i : Int) (v : Seg P) : PState P L A × Out P L :=
  match normIdx s.segs.length i with
  | none => (s, .indexError)
  | some k => finish { s with segs := s.segs.set k v, length := none }

def setSlice (s : PState P L A) (a b : Int) (vs : List (Seg P)) : PState P L A × Out P L :=
  finish { s with
    segs := (s.segs.take (clampIdx s.segs.length a) ++ vs ++
      s.segs.drop (max (clampIdx s.segs.length a) (clampIdx s.segs.length b))),
    length := none }

def delItem (s : PState P L A) (i : Int) : PState P L A × Out P L :=
  match normIdx s.segs.length i with
  | none => (s, .indexError)
  | some k => delFinish { s with segs := s.segs.eraseIdx k, length := none }

def insert (s : PState P L A) (i : Int) (v : Seg P) : PState P L A × Out P L :=
  finish { s with
    segs := (s.segs.take (clampIdx s.segs.length i) ++ [v] ++ s.segs.drop (clampIdx s.segs.length i)),
    length := none }

/-- `path.start = p` (as repaired, finding F10: the cached length is dropped too) -/
def setStart (s : PState P L A) (p : P) : PState P L A :=
  match s.segs with
  | [] => { s with start := some p }
  | a :: rest => { s with start := some p, segs := { a with start := p } :: rest, length := none }

/-- replace the `end` field of the last segment -/
def setLastStop (p : P) : List (Seg P) → List (Seg P)
  | [] => []
  | [z] => [{ z with stop := p }]
  | a :: b :: r => a :: setLastStop p (b :: r)

def setEnd (s : PState P L A) (p : P) : PState P L A :=
  match s.segs with
  | [] => { s with stop := some p }
  | a :: rest => { s with stop := some p, segs := setLastStop p (a :: rest), length := none }

/-- the setters before the repair: `_length` / `_lengths` stay as they are -/
def setStartBuggy (s : PState P L A) (p : P) : PState P L A :=
  match s.segs with
  | [] => { s with start := some p }
  | a :: rest => { s with start := some p, segs := { a with start := p } :: rest }

/-- `_calc_lengths(error, min_depth)`; `a` stands for the pair (as repaired, finding F27: the
cache is reused only for the accuracy it was computed with) -/
def calcCache (len : A → Seg P → L) (a : A) (s : PState P L A) : PState P L A :=
  if s.length.isSome ∧ s.params = some a then s
  else
    { s with length := some (calcLengths (s.segs.map (len a))).1,
             lengths := some (calcLengths (s.segs.map (len a))).2, params := some a }

/-- before the repair: any cached length was reused, whatever accuracy it was computed with -/
def calcCacheBuggy (len : A → Seg P → L) (a : A) (s : PState P L A) : PState P L A :=
  if s.length.isSome then s
  else
    { s with length := some (calcLengths (s.segs.map (len a))).1,
             lengths := some (calcLengths (s.segs.map (len a))).2, params := some a }

/-- `MutableSequence.reverse`: `for i in range(n//2): self[i], self[n-i-1] = self[n-i-1], self[i]` -/
def reverseLoop (s : PState P L A) : Nat → Nat → PState P L A
  | _, 0 => s
  | i, fuel + 1 =>
    match s.segs[i]? with
    | none => s
    | some x =>
      match s.segs[s.segs.length - i - 1]? with
      | none => s
      | some y =>
        reverseLoop (setItem (setItem s (i : Int) y).1 ((s.segs.length - i - 1 : Nat) : Int) x).1 (i + 1) fuel

def extendLoop (s : PState P L A) : List (Seg P) → PState P L A
  | [] => s
  | v :: vs => extendLoop (insert s (s.segs.length : Int) v).1 vs

/-- `not self._start and len(self._segments) > 0` -/
def needsRefresh (falsy : P → Bool) (o : Option P) (segs : List (Seg P)) : Bool :=
  (match o with | none => true | some p => falsy p) && !segs.isEmpty

/-- the `start` property getter -/
def qStartStep (falsy : P → Bool) (s : PState P L A) : PState P L A × Out P L :=
  if needsRefresh falsy s.start s.segs then
    ({ s with start := s.segs.head?.map (·.start) }, .pt (s.segs.head?.map (·.start)))
  else (s, .pt s.start)

/-- the `end` property getter -/
def qEndStep (falsy : P → Bool) (s : PState P L A) : PState P L A × Out P L :=
  if needsRefresh falsy s.stop s.segs then
    ({ s with stop := s.segs.getLast?.map (·.stop) }, .pt (s.segs.getLast?.map (·.stop)))
  else (s, .pt s.stop)

/-- one operation: new state and what the caller observes.  `falsy p` is Python truthiness of a
point (`not self._start`): `0j` is falsy. -/
def step (len : A → Seg P → L) (dflt : A) (falsy : P → Bool) (s : PState P L A) : Op P L A → PState P L A × Out P L
  | .setItem i v => setItem s i v
  | .setSlice a b vs => setSlice s a b vs
  | .delItem i => delItem s i
  | .insert i v => insert s i v
  | .append v => insert s (s.segs.length : Int) v
  | .extend vs => (extendLoop s vs, .unit)
  | .pop i =>
    match normIdx s.segs.length i with
    | none => (s, .indexError)
    | some k =>
      match s.segs[k]? with
      | none => (s, .indexError)
      | some v => ((delItem s i).1, .seg v)
  | .reverse => (reverseLoop s 0 (s.segs.length / 2), .unit)
  | .setStart p => (setStart s p, .unit)
  | .setEnd p => (setEnd s p, .unit)
  | .qLength => let s1 := calcCache len dflt s; (s1, match s1.length with | some l => .len l | none => .unit)
  | .qLengthAt a => let s1 := calcCache len a s; (s1, match s1.length with | some l => .len l | none => .unit)
  | .qT2t T =>
    if T = 1 then (s, if s.segs.length = 0 then .emptyLast else .idxT (some (s.segs.length - 1, 1)))
    else if T = 0 then (s, .idxT (some (0, 0)))
    else let s1 := calcCache len dflt s; (s1, .idxT (T2tLoop (s1.lengths.getD []) 0 0 T))
  | .qPoint T =>
    if s.segs.length = 0 then (s, .idxT none)
    else if T = 0 then (s, .idxT (some (0, T)))
    else if T = 1 then (s, .idxT (some (s.segs.length - 1, T)))
    else let s1 := calcCache len dflt s; (s1, .idxT (pointLoop (s1.lengths.getD []) 0 0 T))
  | .qStart => qStartStep falsy s
  | .qEnd => qEndStep falsy s

/-- run a history, collecting the observations -/
def run (len : A → Seg P → L) (dflt : A) (falsy : P → Bool) : PState P L A → List (Op P L A) → PState P L A × List (Out P L)
  | s, [] => (s, [])
  | s, op :: ops =>
    let (s1, o) := step len dflt falsy s op
    let (s2, os) := run len dflt falsy s1 ops
    (s2, o :: os)

/-! ### a path and its shallow copy
`q = copy.copy(p)` (as repaired: `Path.__copy__` gives the copy its own segment list and its own list of cached length
fractions; everything else is copied by value) yields a second object with the same observable state.  From then on every
operation names the object it acts on. -/
inductive Who where
  | orig
  | twin
  deriving DecidableEq, Repr

/-- one tagged operation on the pair (original, copy) -/
def stepTwin (len : A → Seg P → L) (dflt : A) (falsy : P → Bool) (s : PState P L A × PState P L A) (w : Who) (op : Op P L A) :
    (PState P L A × PState P L A) × Out P L :=
  match w with
  | .orig => let r := step len dflt falsy s.1 op; ((r.1, s.2), r.2)
  | .twin => let r := step len dflt falsy s.2 op; ((s.1, r.1), r.2)

/-- a tagged history on the pair; the outputs are tagged with the object that produced them -/
def runTwin (len : A → Seg P → L) (dflt : A) (falsy : P → Bool) :
    PState P L A × PState P L A → List (Who × Op P L A) → (PState P L A × PState P L A) × List (Who × Out P L)
  | s, [] => (s, [])
  | s, (w, op) :: ops =>
    let r := stepTwin len dflt falsy s w op
    let r2 := runTwin len dflt falsy r.1 ops
    (r2.1, (w, r.2) :: r2.2)

end
end SvgVerif.Model.PathState
