/-! Hand-written model of the cache of `Arc.length(0, 1, error, min_depth)` (svgpathtools/path.py, as repaired by
4574cbe): `segment_length_hash` holds the key `(hash(self), error, min_depth)` of the last full-length computation
and `segment_length` its value; a request with the same key returns the stored value, any other request computes and
overwrites.  `hash` (Python's hash of the tuple of defining fields) and `compute` (scipy quad or the recursive
fallback) are parameters.  Tied to the code by the correspondence stream "arc-length-cache" (harness/props/c16.py).
Import-free. -/
namespace SvgVerif.Model.ArcCache

variable {F H E D V : Type} [DecidableEq H] [DecidableEq E] [DecidableEq D]

structure Entry (H E D V : Type) where
  key : H × E × D
  value : V

/-- `Arc.length(error=e, min_depth=d)` on an arc whose defining fields are `f` -/
def arcLength (hash : F → H) (compute : F → E → D → V) (cache : Option (Entry H E D V)) (f : F) (e : E) (d : D) :
    V × Option (Entry H E D V) :=
  let k := (hash f, e, d)
  match cache with
  | some c => if c.key = k then (c.value, cache) else (compute f e d, some ⟨k, compute f e d⟩)
  | none => (compute f e d, some ⟨k, compute f e d⟩)

/-- before the repair: the key was `hash(self)` alone (the accuracy arguments were ignored on a hit) -/
def arcLengthOld (hash : F → H) (compute : F → E → D → V) (cache : Option (H × V)) (f : F) (e : E) (d : D) :
    V × Option (H × V) :=
  match cache with
  | some c => if c.1 = hash f then (c.2, cache) else (compute f e d, some (hash f, compute f e d))
  | none => (compute f e d, some (hash f, compute f e d))

end SvgVerif.Model.ArcCache
