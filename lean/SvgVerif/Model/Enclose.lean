/-! Hand-written model of the decision logic of `path_encloses_pt` and `Path.is_contained_by`
(svgpathtools/path.py).  The geometric inputs (number of crossings reported by
`Path.intersect`, bounding box test) are parameters. -/
namespace SvgVerif.Model.Enclose

/-- `path_encloses_pt(pt, opt, path)`: `len(intersections) % 2` is truthy -/
def enclosesPt (nCrossings : Nat) : Bool := nCrossings % 2 != 0

/-- `Path.is_contained_by(other)`: `crosses` = `self.intersect(other, justonemode=True)` is truthy,
`inBox` = the start of `self` lies in `other.bbox()`, `n` = crossings of the probe with `other` -/
def isContainedBy (crosses inBox : Bool) (n : Nat) : Bool :=
  if crosses then false
  else if !inBox then false
  else enclosesPt n

/-- `seg2lines` inside `Path.area`: an Arc of length `len` is replaced by `ceil(len / chord_length)` chords
(`ceilQ` is the ceiling function of the scalar type) -/
def numLines {S : Type} [Div S] (ceilQ : S → Int) (len chord : S) : Int := ceilQ (len / chord)

end SvgVerif.Model.Enclose
