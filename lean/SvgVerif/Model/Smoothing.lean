/-! Hand-written model of the joint loop of `smoothed_path` (svgpathtools/smoothing.py) and of the
dispatch of `smoothed_joint`.  Segments are opaque (`σ`); the two things the loop asks of them —
how the joint between two consecutive segments is classified (through `unit_tangent` and
`isclose`) and what `smoothed_joint` returns — are parameters.  Import-free; executed against the
real loop on stub segments by harness/props/c20.py. -/
namespace SvgVerif.Model.Smoothing

/-- classification of the joint `seg0.end == seg1.start` in the loop -/
inductive JC where
  | smooth   -- `isclose(unit_tangent0, unit_tangent1)`
  | sharp    -- `isclose(-unit_tangent0, unit_tangent1)`: reported, not repaired
  | kink     -- everything else, including an undefined unit tangent (`flag`)
  deriving Repr, DecidableEq

variable {σ : Type}

/-- `new_path[-1] = x` -/
def setLast (x : σ) : List σ → List σ
  | [] => []
  | [_] => [x]
  | a :: rest => a :: setLast x rest

/-- `new_path[0] = x` -/
def setHead (x : σ) : List σ → List σ
  | [] => []
  | _ :: rest => x :: rest

structure St (σ : Type) where
  newPath : List σ
  sharp : List Nat
  deriving Repr

/-- one iteration `idx < len(path) - 1`: `seg1 = path[idx + 1]`, kink index `(idx+1) % n` -/
def stepOpen (cls : σ → σ → JC) (joint : σ → σ → σ × List σ × σ) (n : Nat)
    (s : St σ) (idx : Nat) (seg1 : σ) : St σ :=
  match s.newPath.getLast? with
  | none => s
  | some seg0 =>
    match cls seg0 seg1 with
    | .smooth => { s with newPath := s.newPath ++ [seg1] }
    | .sharp => { newPath := s.newPath ++ [seg1], sharp := s.sharp ++ [(idx + 1) % n] }
    | .kink =>
      let r := joint seg0 seg1
      { s with newPath := setLast r.1 s.newPath ++ r.2.1 ++ [r.2.2] }

/-- the last iteration on a closed path: `seg1 = new_path[0]` -/
def stepClose (cls : σ → σ → JC) (joint : σ → σ → σ × List σ × σ) (n : Nat) (s : St σ) : St σ :=
  match s.newPath.getLast?, s.newPath.head? with
  | some seg0, some seg1 =>
    match cls seg0 seg1 with
    | .smooth => s
    | .sharp => { newPath := s.newPath ++ [seg1], sharp := s.sharp ++ [n % n] }
    | .kink =>
      let r := joint seg0 seg1
      { s with newPath := setHead r.2.2 (setLast r.1 s.newPath ++ r.2.1) }
  | _, _ => s

/-- the `for idx in range(len(path))` loop for `idx = 0 … n-2` -/
def openLoop (cls : σ → σ → JC) (joint : σ → σ → σ × List σ × σ) (n : Nat) :
    St σ → Nat → List σ → St σ
  | s, _, [] => s
  | s, idx, seg1 :: rest => openLoop cls joint n (stepOpen cls joint n s idx seg1) (idx + 1) rest

inductive Res (σ : Type) where
  | unchanged                              -- `len(path) == 1`: the argument itself is returned
  | path (segs : List σ) (sharp : List Nat) -- `Path(*new_path)`; a non-empty `sharp` raises unless ignored
  | empty                                  -- `path[0]` raises IndexError
  deriving Repr

/-- `smoothed_path(path)` for a continuous `path`; `closed = path.isclosed()` -/
def smoothedPath (cls : σ → σ → JC) (joint : σ → σ → σ × List σ × σ) (closed : Bool) :
    List σ → Res σ
  | [] => .empty
  | [_] => .unchanged
  | first :: rest =>
    let n := rest.length + 1
    let s := openLoop cls joint n { newPath := [first], sharp := [] } 0 rest
    let s := if closed then stepClose cls joint n s else s
    .path s.newPath s.sharp

/-! ### dispatch of `smoothed_joint` on the kinds of the two segments -/

/-- what `smoothed_joint` needs from segments: `isinstance(seg, Line)`, `reversed()`, the two
elementary elbow constructions, and the oracles used by the curve–curve case -/
structure JointOps (σ : Type) where
  isLine : σ → Bool
  rev : σ → σ
  /-- Line–Line: `(seg0_trimmed, elbow, seg1_trimmed)` -/
  lineLine : σ → σ → σ × σ × σ
  /-- Line–curve: `(seg0_trimmed, elbow)`; `seg1` is returned untouched -/
  lineCurve : σ → σ → σ × σ
  /-- `seg0.cropped(0, seg0.ilength(seg0.length() - a/2))`, `a` from both segments -/
  cropHead : σ → σ → σ
  /-- `seg1.cropped(seg1.ilength(a/2), 1)` -/
  cropTail : σ → σ → σ
  /-- `Line(p.end, q)` for the joint point `q = seg0.end`; `Line(q, p.start)` -/
  lineToJoint : σ → σ → σ
  lineFromJoint : σ → σ → σ

/-- `smoothed_joint(seg0, seg1)`; the curve–curve case recurses only into cases with a Line, so
no fuel is needed -/
def smoothedJoint (o : JointOps σ) (seg0 seg1 : σ) : σ × List σ × σ :=
  let lc := fun (a b : σ) => let r := o.lineCurve a b; ((r.1, [r.2], b) : σ × List σ × σ)
  let cl := fun (a b : σ) =>
    -- `elif isinstance(seg1, Line)`: mirror through `reversed()`
    let r := o.lineCurve (o.rev b) (o.rev a)
    ((a, [o.rev r.2], o.rev r.1) : σ × List σ × σ)
  let ll := fun (a b : σ) => let r := o.lineLine a b; ((r.1, [r.2.1], r.2.2) : σ × List σ × σ)
  if o.isLine seg0 && o.isLine seg1 then ll seg0 seg1
  else if o.isLine seg0 then lc seg0 seg1
  else if o.isLine seg1 then cl seg0 seg1
  else
    let seg0t := o.cropHead seg0 seg1
    let seg1t := o.cropTail seg0 seg1
    let l0 := o.lineToJoint seg0t seg0
    let l1 := o.lineFromJoint seg1t seg0
    let r0 := cl seg0t l0          -- (dummy, elbow0, seg0_line_trimmed)
    let r1 := lc l1 seg1t          -- (seg1_line_trimmed, elbow1, dummy)
    let rq := ll r0.2.2 r1.1       -- (seg0_line_trimmed', elbowq, seg1_line_trimmed')
    (seg0t, r0.2.1 ++ [rq.1] ++ rq.2.1 ++ [rq.2.2] ++ r1.2.1, seg1t)

end SvgVerif.Model.Smoothing
