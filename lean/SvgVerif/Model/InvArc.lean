import SvgVerif.Model.PathParam
/-! Hand-written model of `inv_arclength` (svgpathtools/path.py): range check, shortcuts, the
Path branch (prefix-sum search, recursive call, `t2T`), the Line branch, and the bisection loop
with tolerance exit, stall exit and `maxits`.

The bisection is written over an arbitrary *grid* `G` of parameter values with an
uninterpreted midpoint, so that one definition runs at `Rat` (exact arithmetic), at `Float`
(the IEEE grid, where `mid a b = (a+b)/2` can round onto an end) and is reasoned about over
any finite linear order. -/
namespace SvgVerif.Model.InvArc

inductive BRes (G : Type) where
  | ret (t : G)        -- `abs(s_t - s) < s_tol`
  | stall (t : G)      -- "t is as close as a float can be to the correct value" (warning)
  | maxits             -- `raise Exception("Maximum iterations reached ...")`
  deriving Repr, DecidableEq

variable {G V : Type}

/-- the `while iteration < maxits` loop as repaired (finding F19): the stall exit fires as soon
as the midpoint is one of the two ends, i.e. no grid point lies strictly between them.
`len t = curve.length(t1=t)`, `close st = abs(st - s) < s_tol`, `below st = st < s`. -/
def bisect (mid : G → G → G) (eqb : G → G → Bool) (len : G → V) (close below : V → Bool) :
    Nat → G → G → BRes G
  | 0, _, _ => .maxits
  | n + 1, lo, hi =>
    let t := mid lo hi
    let st := len t
    if close st then .ret t
    else if eqb t lo || eqb t hi then .stall t
    else if below st then bisect mid eqb len close below n t hi
    else bisect mid eqb len close below n lo t

/-- the loop before the repair: the stall test `t_upper == t_lower` comes after the update and
never fires once the midpoint equals the end that is re-assigned to itself -/
def bisectBuggy (mid : G → G → G) (eqb : G → G → Bool) (len : G → V) (close below : V → Bool) :
    Nat → G → G → BRes G
  | 0, _, _ => .maxits
  | n + 1, lo, hi =>
    let t := mid lo hi
    let st := len t
    if close st then .ret t
    else
      let lo' := if below st then t else lo
      let hi' := if below st then hi else t
      if eqb hi' lo' then .stall t
      else bisectBuggy mid eqb len close below n lo' hi'

section top
variable {S : Type} [Add S] [Sub S] [Mul S] [Div S] [Neg S] [LT S] [LE S] [DecidableLT S]
  [DecidableLE S] [DecidableEq S] [OfNat S 0] [OfNat S 1]

inductive IlRes (S : Type) where
  | value (t : S)
  | stalled (t : S)
  | valueError          -- `s` outside `[0, L]`
  | assertion           -- `assert curve_length > 0`
  | maxits
  deriving Repr, DecidableEq

/-- `inv_arclength` on a single non-Line segment: `len` is `t ↦ curve.length(t1=t)` -/
def invSeg (len : S → S) (sTol : S) (maxits : Nat) (s : S) : IlRes S :=
  let L := len 1
  if ¬ (0 < L) then .assertion
  else if ¬ (0 ≤ s ∧ s ≤ L) then .valueError
  else if s = 0 then .value 0
  else if s = L then .value 1
  else
    match bisect (fun a b => (a + b) / (1 + 1)) (fun a b => decide (a = b)) len
        (fun st => decide (SvgVerif.Model.sabs (st - s) < sTol)) (fun st => decide (st < s)) maxits 0 1 with
    | .ret t => .value t
    | .stall t => .stalled t
    | .maxits => .maxits

/-- `inv_arclength` on a Line of length `L` -/
def invLine (L : S) (s : S) : IlRes S :=
  if ¬ (0 < L) then .assertion
  else if ¬ (0 ≤ s ∧ s ≤ L) then .valueError
  else if s = 0 then .value 0
  else if s = L then .value 1
  else .value (s / L)

/-- the Path branch: `lens` are the segment lengths, `inv k r` the recursive call on segment `k`
with remaining length `r` (as repaired, finding F20: the remainder is clamped into `[0, len_k]`) -/
def invPathLoop (inv : Nat → S → IlRes S) (fr : List S) : List S → Nat → S → S → IlRes S
  | [], _, _, _ => .value 1
  | l :: ls, k, lsum, s =>
    if lsum ≤ s ∧ s ≤ lsum + l then
      let r := s - lsum
      let r := if r < 0 then 0 else if l < r then l else r
      match inv k r with
      | .value t =>
        match SvgVerif.Model.PathParam.t2T fr k t with
        | some T => .value T
        | none => .assertion
      | .stalled t =>
        match SvgVerif.Model.PathParam.t2T fr k t with
        | some T => .stalled T
        | none => .assertion
      | e => e
    else invPathLoop inv fr ls (k + 1) (lsum + l) s

def invPath (inv : Nat → S → IlRes S) (lens : List S) (s : S) : IlRes S :=
  let L := SvgVerif.Model.PathParam.psum lens
  if ¬ (0 < L) then .assertion
  else if ¬ (0 ≤ s ∧ s ≤ L) then .valueError
  else if s = 0 then .value 0
  else if s = L then .value 1
  else invPathLoop inv (SvgVerif.Model.PathParam.calcLengths lens).2 lens 0 0 s

end top
end SvgVerif.Model.InvArc
