import SvgVerif.Model.PathParam
/-! Hand-written model of `Path.cropped` and `Path.reversed` (svgpathtools/path.py).
Segments are abstract: a crop result is a list of *pieces* `(segment index, a, b)`,
meaning `self[idx].cropped(a, b)`, or the whole segment when `(a, b) = (0, 1)`.
`labels` carries segment equality (`Path.index(seg)` returns the first *equal* segment). -/
namespace SvgVerif.Model.PathOps
open SvgVerif.Model SvgVerif.Model.PathParam

variable {S : Type} [Add S] [Sub S] [Mul S] [Div S] [Neg S] [LT S] [LE S] [DecidableLT S]
  [DecidableLE S] [DecidableEq S] [OfNat S 0] [OfNat S 1]

structure Piece (S : Type) where
  idx : Nat
  a : S
  b : S
  deriving Repr, DecidableEq

inductive CropErr where
  | assertion      -- one of the `assert`s at the top, or `isclosed()`'s assertion
  | notClosed      -- ValueError("This path is not closed, thus T0 must be less than T1.")
  | bug            -- T2t fell through
  deriving Repr, DecidableEq

/-- `Path.index(self[k])`: first index carrying an equal segment.  Before the repair of
finding F24 `Path.cropped` located its end segments with `self.index(seg)`, which for a path
that contains two equal segments (a retraced stroke) names the wrong one; the repaired code
uses the index returned by `T2t` directly, so `labels` no longer influences the result (it
is kept as a parameter so that the correspondence check exercises paths with equal
segments). -/
def indexOf (labels : List Nat) (k : Nat) : Nat :=
  match labels[k]? with
  | none => k
  | some l => (labels.findIdx? (· == l)).getD k

/-- numeric snap tests `np.isclose(t, 0)` / `np.isclose(t, 1)` with thresholds passed in -/
def close0 (atol : S) (t : S) : Bool := decide (sabs t ≤ atol)
def close1 (atol rtol : S) (t : S) : Bool := decide (sabs (t - 1) ≤ atol + rtol)

def wholes (is : List Nat) : List (Piece S) := is.map (fun i => ⟨i, 0, 1⟩)

/-- `Path.cropped(T0, T1)` after the top-level special cases; `fr` are the cached length
fractions, `n = len(self)`, `closed = self.isclosed()` (none when its assertion fails). -/
def croppedCore (atol rtol : S) (fr : List S) (labels : List Nat) (closed : Option Bool)
    (T0 T1 : S) : Except CropErr (List (Piece S)) := do
  let n := fr.length
  -- end of the crop
  let (i1, t1) ←
    if T1 = 1 then pure (n - 1, (1 : S))
    else match T2t fr T1 with
      | none => throw CropErr.bug
      | some (k, t) =>
        if close0 atol t then pure ((k + n - 1) % n, (1 : S))
        else pure (k, t)
  -- start of the crop
  let (i0, t0) ←
    if T0 = 0 then pure (0, (0 : S))
    else match T2t fr T0 with
      | none => throw CropErr.bug
      | some (k, t) =>
        if close1 atol rtol t then pure ((k + 1) % n, (0 : S))
        else pure (k, t)
  if T0 < T1 ∧ i0 = i1 then
    pure [⟨i0, t0, t1⟩]
  else
    let first : List (Piece S) := [⟨i0, t0, 1⟩]
    let middle ←
      if T1 < T0 then
        match closed with
        | none => throw CropErr.assertion
        | some false => throw CropErr.notClosed
        | some true => pure (wholes (List.range' (i0 + 1) (n - (i0 + 1))) ++ wholes (List.range' 0 i1))
      else pure (wholes (List.range' (i0 + 1) (i1 - (i0 + 1))))
    let last : List (Piece S) := if t1 ≠ 0 then [⟨i1, 0, t1⟩] else []
    pure (first ++ middle ++ last)

/-- `Path.cropped(T0, T1)` (with the repair for `T1 == 0` on a closed path, finding F7) -/
def cropped (atol rtol : S) (fr : List S) (labels : List Nat) (closed : Option Bool)
    (T0 T1 : S) : Except CropErr (List (Piece S)) :=
  if ¬ (0 ≤ T0 ∧ T0 ≤ 1 ∧ 0 ≤ T1 ∧ T1 ≤ 1) then throw CropErr.assertion
  else if T0 = T1 then throw CropErr.assertion
  else if T0 = 1 ∧ T1 = 0 then throw CropErr.assertion
  else if T0 = 1 ∧ 0 < T1 ∧ T1 < 1 then
    match closed with
    | none => throw CropErr.assertion
    | some true => croppedCore atol rtol fr labels closed 0 T1
    | some false => croppedCore atol rtol fr labels closed T0 T1
  else if T1 = 0 ∧ 0 < T0 ∧ T0 < 1 then
    match closed with
    | none => throw CropErr.assertion
    | some true => croppedCore atol rtol fr labels closed T0 1
    | some false => croppedCore atol rtol fr labels closed T0 T1
  else croppedCore atol rtol fr labels closed T0 T1

/-- the same without the `T1 == 0` special case: the code before the repair -/
def croppedBuggy (atol rtol : S) (fr : List S) (labels : List Nat) (closed : Option Bool)
    (T0 T1 : S) : Except CropErr (List (Piece S)) :=
  if ¬ (0 ≤ T0 ∧ T0 ≤ 1 ∧ 0 ≤ T1 ∧ T1 ≤ 1) then throw CropErr.assertion
  else if T0 = T1 then throw CropErr.assertion
  else if T0 = 1 ∧ T1 = 0 then throw CropErr.assertion
  else if T0 = 1 ∧ 0 < T1 ∧ T1 < 1 then
    match closed with
    | none => throw CropErr.assertion
    | some true => croppedCore atol rtol fr labels closed 0 T1
    | some false => croppedCore atol rtol fr labels closed T0 T1
  else croppedCore atol rtol fr labels closed T0 T1

/-- total T-length covered by a list of pieces -/
def coverage (fr : List S) (ps : List (Piece S)) : S :=
  ps.foldl (fun acc p => acc + (fr.getD p.idx 0) * (p.b - p.a)) 0

/-- `Path.reversed()`: each segment reversed, order reversed -/
def reversedPath {Seg : Type} (rev : Seg → Seg) (segs : List Seg) : List Seg :=
  (segs.map rev).reverse

end SvgVerif.Model.PathOps

namespace SvgVerif.Model.PathOps
open SvgVerif.Model.PathParam
/-! ### `transform_segments_together(path, transformation)`
`orig` = (start, end) of the original segments, `tr` = (start, end) of the individually
transformed ones.  For every joint of `path.joints()` — cyclic, so including the closing
joint (as repaired, finding F26) — whose points coincided, the transformed segment's end is
*assigned* the next transformed segment's start. -/
variable {P Q : Type} [DecidableEq P]

/-- cyclic shift by one: element `i` becomes the old element `i+1 (mod n)` -/
def rot1 {α : Type} : List α → List α
  | [] => []
  | x :: xs => xs ++ [x]

def weld (orig : List (Ends P)) (tr : List (Ends Q)) : List (Ends Q) :=
  let nextOrigStart := rot1 (orig.map (·.1))
  let nextTrStart := rot1 (tr.map (·.1))
  List.zipWith (fun (o : Ends P × P) (t : Ends Q × Q) => (t.1.1, if o.1.2 = o.2 then t.2 else t.1.2))
    (orig.zip nextOrigStart) (tr.zip nextTrStart)

/-- the pre-repair behaviour: `joints()` omitted the closing pair -/
def weldOpen (orig : List (Ends P)) (tr : List (Ends Q)) : List (Ends Q) :=
  let w := weld orig tr
  match tr.getLast? with
  | none => w
  | some z => w.dropLast ++ [z]

end SvgVerif.Model.PathOps
