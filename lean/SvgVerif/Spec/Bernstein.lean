import Mathlib.Algebra.Field.Defs
import Mathlib.Data.Nat.Choose.Basic
/-! Textbook definitions, independent of the code's structure. -/
namespace SvgVerif.Spec

variable {K : Type} [Field K]

/-- `Σ_{i ≥ i₀} C(n,i) (1-t)^(n-i) t^i P_i` over the tail of the control-point list. -/
def bernsteinAux (n : ℕ) : ℕ → List K → K → K
  | _, [], _ => 0
  | i, p :: ps, t => (Nat.choose n i : K) * (1 - t) ^ (n - i) * t ^ i * p + bernsteinAux n (i + 1) ps t

/-- The Bezier curve `Σ_i C(n,i) (1-t)^(n-i) t^i P_i` of the control points `P` (n = |P| - 1). -/
def bernstein (P : List K) (t : K) : K := bernsteinAux (P.length - 1) 0 P t

/-- Evaluation of a polynomial given by its coefficients, highest power first (numpy order). -/
def polyEval (cs : List K) (t : K) : K := cs.foldl (fun acc c => acc * t + c) 0

end SvgVerif.Spec
