import Mathlib.Algebra.Field.Defs
import Mathlib.Data.Nat.Choose.Basic
/-! Textbook definitions, independent of the code's structure. -/
namespace SvgVerif.Spec

variable {K : Type} [Field K]

/-- `Σ_{i ≥ i₀} C(n,i) (1-t)^(n-i) t^i P_i` over the tail of the control-point list. -/
def bernsteinAux (n : ℕ) : ℕ → List K → K → K
  | _, [], _ => 0
  | i, p :: ps, t => (Nat.choose n i : K) * (1 - t) ^ (n - i) * t ^ i * p + bernsteinAux n (i + 1) ps t

/-- The Bezier curve `Σ_i C(n,i) (1-t)^(n-i) t^i P_i` of the control points `P` (n = |P| - 1). -/
def bernstein (P : List K) (t : K) : K := bernsteinAux (P.length - 1) 0 P t

/-- Value at `t` of the polynomial with coefficients `cs`, highest power first (numpy order). -/
def polyEval : List K → K → K
  | [], _ => 0
  | c :: cs, t => c * t ^ cs.length + polyEval cs t

/-- Formal derivative of a coefficient list (highest power first). -/
def polyDeriv : List K → List K
  | [] => []
  | [_] => []
  | c :: c' :: cs => ((c' :: cs).length : K) * c :: polyDeriv (c' :: cs)

/-- n-fold formal derivative -/
def polyDerivN : ℕ → List K → List K
  | 0, cs => cs
  | n + 1, cs => polyDerivN n (polyDeriv cs)

end SvgVerif.Spec
