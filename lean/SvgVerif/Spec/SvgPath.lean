import SvgVerif.Model.Parser
/-! Reference interpreter of SVG path data, written from SVG 1.1 §8.3 (path data) and
implementation note F.6.2, *not* from the code: the state is (current point, sub-path start,
control point remembered for S, control point remembered for T); there is no `last_command`
device.  Coordinates are combined in the order "current point + offset". -/
namespace SvgVerif.Spec.SvgPath
open SvgVerif.Model.Parser

inductive Cmd (S : Type) where
  | M (abs : Bool) (p : Pt S)
  | L (abs : Bool) (p : Pt S)
  | H (abs : Bool) (x : S)
  | V (abs : Bool) (y : S)
  | C (abs : Bool) (c1 c2 p : Pt S)
  | Sm (abs : Bool) (c2 p : Pt S)
  | Q (abs : Bool) (c p : Pt S)
  | T (abs : Bool) (p : Pt S)
  | A (abs : Bool) (r : Pt S) (rot large sweep : S) (p : Pt S)
  | Z
  deriving Repr, DecidableEq

variable {S : Type} [Add S] [Sub S] [DecidableEq S] [OfNat S 0]

structure SS (S : Type) where
  cur : Pt S
  start : Pt S
  lastC : Option (Pt S)     -- second control point of the previous command if it was C/c/S/s
  lastQ : Option (Pt S)     -- control point of the previous command if it was Q/q/T/t
  segs : List (Seg S)       -- newest first
  closed : Bool

/-- absolute position of an argument: relative arguments are offsets from the current point -/
def at_ (abs : Bool) (cur p : Pt S) : Pt S := if abs then p else (cur.1 + p.1, cur.2 + p.2)

/-- reflection of `c` about `cur` (one admissible rounding of `2·cur − c`) -/
def reflect (cur c : Pt S) : Pt S := ((cur.1 + cur.1) - c.1, (cur.2 + cur.2) - c.2)

def step (ss : SS S) : Cmd S → SS S
  | .M abs p =>
    let q := at_ abs ss.cur p
    { ss with cur := q, start := q, lastC := none, lastQ := none }
  | .L abs p =>
    let q := at_ abs ss.cur p
    { ss with segs := .line ss.cur q :: ss.segs, cur := q, lastC := none, lastQ := none }
  | .H abs x =>
    let q : Pt S := (if abs then x else ss.cur.1 + x, ss.cur.2)
    { ss with segs := .line ss.cur q :: ss.segs, cur := q, lastC := none, lastQ := none }
  | .V abs y =>
    let q : Pt S := (ss.cur.1, if abs then y else ss.cur.2 + y)
    { ss with segs := .line ss.cur q :: ss.segs, cur := q, lastC := none, lastQ := none }
  | .C abs c1 c2 p =>
    let c1 := at_ abs ss.cur c1
    let c2 := at_ abs ss.cur c2
    let q := at_ abs ss.cur p
    { ss with segs := .cubic ss.cur c1 c2 q :: ss.segs, cur := q, lastC := some c2, lastQ := none }
  | .Sm abs c2 p =>
    let c1 := match ss.lastC with
      | some c => reflect ss.cur c
      | none => ss.cur
    let c2 := at_ abs ss.cur c2
    let q := at_ abs ss.cur p
    { ss with segs := .cubic ss.cur c1 c2 q :: ss.segs, cur := q, lastC := some c2, lastQ := none }
  | .Q abs c p =>
    let c := at_ abs ss.cur c
    let q := at_ abs ss.cur p
    { ss with segs := .quad ss.cur c q :: ss.segs, cur := q, lastC := none, lastQ := some c }
  | .T abs p =>
    let c := match ss.lastQ with
      | some c => reflect ss.cur c
      | none => ss.cur
    let q := at_ abs ss.cur p
    { ss with segs := .quad ss.cur c q :: ss.segs, cur := q, lastC := none, lastQ := some c }
  | .A abs r rot large sweep p =>
    let q := at_ abs ss.cur p
    if r.1 = 0 ∨ r.2 = 0 then       -- F.6.2: zero radius ⇒ straight line
      { ss with segs := .line ss.cur q :: ss.segs, cur := q, lastC := none, lastQ := none }
    else if ss.cur = q then          -- F.6.2: identical endpoints ⇒ the segment is omitted
      { ss with cur := q, lastC := none, lastQ := none }
    else
      { ss with segs := .arc ss.cur r rot (large ≠ 0) (sweep ≠ 0) q :: ss.segs, cur := q,
                lastC := none, lastQ := none }
  | .Z =>
    { ss with segs := (if ss.cur = ss.start then ss.segs else .line ss.cur ss.start :: ss.segs),
              cur := ss.start, closed := true, lastC := none, lastQ := none }

/-- a path-data program must begin with a moveto; `cur0` is the caller's `current_pos`
(relevant only when that first moveto is relative) -/
def run (cur0 : Pt S) : List (Cmd S) → Option (List (Seg S) × Bool)
  | .M abs p :: cs =>
    let q := at_ abs cur0 p
    let s0 : SS S := { cur := q, start := q, lastC := none, lastQ := none, segs := [], closed := false }
    let s := cs.foldl step s0
    some (s.segs.reverse, s.closed)
  | _ => none

end SvgVerif.Spec.SvgPath
