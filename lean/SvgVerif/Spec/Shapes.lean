import SvgVerif.Spec.SvgPath
/-! Basic shapes as path data, written from SVG 1.1 §9 (rect §9.2 incl. its rx/ry resolution,
circle §9.3, ellipse §9.4, line §9.5, polyline §9.6, polygon §9.7) and the transform matrices of
§7.6.  The geometry of a shape is `Spec.SvgPath.run` of its command list.  For circle and
ellipse SVG 1.1 fixes the point set but neither start point nor direction; the command list below
uses the decomposition into two half-ellipses starting at the left-most point. -/
namespace SvgVerif.Spec.Shapes
open SvgVerif.Model.Parser SvgVerif.Spec.SvgPath

variable {S : Type} [Add S] [Sub S] [Neg S] [OfNat S 0] [OfNat S 1]

inductive Shape (S : Type) where
  | rect (x y w h : S) (rx ry : Option S)
  | ellipse (cx cy rx ry : S)          -- a circle is `ellipse cx cy r r`
  | line (x1 y1 x2 y2 : S)
  | polyline (pts : List (Pt S))
  | polygon (pts : List (Pt S))
  deriving Repr

/-- §9.2: "if a properly specified value is provided for rx but not for ry, then ry = rx" and vice versa -/
def resolveR (rx ry : Option S) : Option (S × S) :=
  match rx, ry with
  | none, none => none
  | some a, none => some (a, a)
  | none, some b => some (b, b)
  | some a, some b => some (a, b)

def lines (pts : List (Pt S)) : List (Cmd S) := pts.map (fun p => Cmd.L true p)

def toCmds : Shape S → List (Cmd S)
  | .rect x y w h rx ry =>
    match resolveR rx ry with
    | none =>
      [.M true (x, y), .L true (x + w, y), .L true (x + w, y + h), .L true (x, y + h), .Z]
    | some (rx, ry) =>
      [.M true (x + rx, y), .L true (x + w - rx, y), .A true (rx, ry) 0 0 1 (x + w, y + ry),
       .L true (x + w, y + h - ry), .A true (rx, ry) 0 0 1 (x + w - rx, y + h),
       .L true (x + rx, y + h), .A true (rx, ry) 0 0 1 (x, y + h - ry),
       .L true (x, y + ry), .A true (rx, ry) 0 0 1 (x + rx, y), .Z]
  | .ellipse cx cy rx ry =>
    [.M true (cx - rx, cy), .A false (rx, ry) 0 1 0 (rx + rx, 0), .A false (rx, ry) 0 1 0 (-(rx + rx), 0), .Z]
  | .line x1 y1 x2 y2 => [.M true (x1, y1), .L true (x2, y2)]
  | .polyline [] => []
  | .polyline (p :: ps) => .M true p :: lines ps
  | .polygon [] => []
  | .polygon (p :: ps) => .M true p :: lines ps ++ [.Z]

end SvgVerif.Spec.Shapes
