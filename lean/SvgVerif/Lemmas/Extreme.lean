import Mathlib.Analysis.Calculus.LocalExtr.Basic
import Mathlib.Analysis.Calculus.Deriv.Basic
import Mathlib.Topology.Order.Compact
/-! Extreme value + Fermat: a function on `[0,1]` whose interior critical points are all among
a list of candidates is bounded on `[0,1]` by its values at the candidates. -/
namespace SvgVerif.Lemmas
open Set

/-- if every interior zero of `f'` is a candidate (and so are 0 and 1), then on `[0,1]` `f` is
bounded above by its value at some candidate -/
theorem le_candidate_max (f f' : ℝ → ℝ) (cands : List ℝ)
    (hd : ∀ t ∈ Ioo (0 : ℝ) 1, HasDerivAt f (f' t) t) (hc : ContinuousOn f (Icc 0 1))
    (h0 : (0 : ℝ) ∈ cands) (h1 : (1 : ℝ) ∈ cands)
    (hcrit : ∀ t ∈ Ioo (0 : ℝ) 1, f' t = 0 → t ∈ cands)
    (t : ℝ) (ht : t ∈ Icc (0 : ℝ) 1) : ∃ c ∈ cands, c ∈ Icc (0 : ℝ) 1 ∧ f t ≤ f c := by
  obtain ⟨m, hm, hmax⟩ := isCompact_Icc.exists_isMaxOn (nonempty_Icc.mpr zero_le_one) hc
  have hle : f t ≤ f m := hmax ht
  by_cases hm0 : m = 0
  · exact ⟨0, h0, ⟨le_refl _, zero_le_one⟩, hm0 ▸ hle⟩
  by_cases hm1 : m = 1
  · exact ⟨1, h1, ⟨zero_le_one, le_refl _⟩, hm1 ▸ hle⟩
  have hmi : m ∈ Ioo (0 : ℝ) 1 := ⟨lt_of_le_of_ne hm.1 (Ne.symm hm0), lt_of_le_of_ne hm.2 hm1⟩
  have hloc : IsLocalMax f m := hmax.isLocalMax (Icc_mem_nhds hmi.1 hmi.2)
  have hz : f' m = 0 := hloc.hasDerivAt_eq_zero (hd m hmi)
  exact ⟨m, hcrit m hmi hz, hm, hle⟩

theorem candidate_min_le (f f' : ℝ → ℝ) (cands : List ℝ)
    (hd : ∀ t ∈ Ioo (0 : ℝ) 1, HasDerivAt f (f' t) t) (hc : ContinuousOn f (Icc 0 1))
    (h0 : (0 : ℝ) ∈ cands) (h1 : (1 : ℝ) ∈ cands)
    (hcrit : ∀ t ∈ Ioo (0 : ℝ) 1, f' t = 0 → t ∈ cands)
    (t : ℝ) (ht : t ∈ Icc (0 : ℝ) 1) : ∃ c ∈ cands, c ∈ Icc (0 : ℝ) 1 ∧ f c ≤ f t := by
  obtain ⟨c, hc1, hc2, hc3⟩ := le_candidate_max (fun x => - f x) (fun x => - f' x) cands
    (fun x hx => (hd x hx).neg) hc.neg h0 h1 (fun x hx h => hcrit x hx (by simpa using h)) t ht
  exact ⟨c, hc1, hc2, by simpa using hc3⟩

end SvgVerif.Lemmas
