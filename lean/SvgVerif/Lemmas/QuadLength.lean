import Mathlib.Analysis.SpecialFunctions.Sqrt
import Mathlib.Analysis.SpecialFunctions.Log.Deriv
import Mathlib.Analysis.SpecialFunctions.Integrals.Basic
import Mathlib.MeasureTheory.Integral.IntervalIntegral.FundThmCalculus
import Mathlib.Tactic.Ring
import Mathlib.Tactic.FieldSimp
import Mathlib.Tactic.Positivity
import Mathlib.Tactic.Linarith
import Mathlib.Tactic.LinearCombination
/-! Real-analysis lemmas behind `QuadraticBezier.length` (svgpathtools/path.py): the closed
form for `∫ sqrt(c2 t^2 + c1 t + c0)` and the fold-back (cusp) fallback. -/
namespace SvgVerif.Lemmas.QuadLength

/-- the closed form used by `QuadraticBezier.length` (svgpathtools/path.py) for
    ∫ sqrt(c2 t^2 + c1 t + c0), written with beta = c1/(2 c2), gamma = c0/c2 - beta^2 -/
noncomputable def closedForm (c2 c1 c0 t0 t1 : ℝ) : ℝ :=
  ((t1 + c1 / (2 * c2)) * Real.sqrt (c2 * t1 ^ 2 + c1 * t1 + c0)
    - (t0 + c1 / (2 * c2)) * Real.sqrt (c2 * t0 ^ 2 + c1 * t0 + c0)
    + (c0 / c2 - (c1 / (2 * c2)) ^ 2) * Real.sqrt c2
      * Real.log ((Real.sqrt c2 * (t1 + c1 / (2 * c2)) + Real.sqrt (c2 * t1 ^ 2 + c1 * t1 + c0))
                  / (Real.sqrt c2 * (t0 + c1 / (2 * c2)) + Real.sqrt (c2 * t0 ^ 2 + c1 * t0 + c0)))) / 2

/-- a positive-definite quadratic is positive everywhere -/
theorem quad_pos (c2 c1 c0 t : ℝ) (hc2 : 0 < c2) (hdisc : c1 ^ 2 < 4 * c2 * c0) :
    0 < c2 * t ^ 2 + c1 * t + c0 := by
  have h : 0 < (4 * c2) * (c2 * t ^ 2 + c1 * t + c0) := by
    nlinarith [sq_nonneg (2 * c2 * t + c1)]
  have h4 : (0 : ℝ) < 4 * c2 := by linarith
  exact (mul_pos_iff_of_pos_left h4).mp h

/-- the argument of the logarithm is positive -/
theorem logArg_pos (c2 c1 c0 t : ℝ) (hc2 : 0 < c2) (hdisc : c1 ^ 2 < 4 * c2 * c0) :
    0 < Real.sqrt c2 * (t + c1 / (2 * c2)) + Real.sqrt (c2 * t ^ 2 + c1 * t + c0) := by
  have hq := quad_pos c2 c1 c0 t hc2 hdisc
  have hs : 0 < Real.sqrt c2 := Real.sqrt_pos.mpr hc2
  have hs2 : Real.sqrt c2 ^ 2 = c2 := Real.sq_sqrt hc2.le
  have hr : 0 < Real.sqrt (c2 * t ^ 2 + c1 * t + c0) := Real.sqrt_pos.mpr hq
  have hr2 : Real.sqrt (c2 * t ^ 2 + c1 * t + c0) ^ 2 = c2 * t ^ 2 + c1 * t + c0 :=
    Real.sq_sqrt hq.le
  -- (s (t+β))^2 = c2 (t+β)^2 < q t = r^2
  have hlt : (Real.sqrt c2 * (t + c1 / (2 * c2))) ^ 2
      < Real.sqrt (c2 * t ^ 2 + c1 * t + c0) ^ 2 := by
    rw [hr2, mul_pow, hs2]
    have : c2 * t ^ 2 + c1 * t + c0 - c2 * (t + c1 / (2 * c2)) ^ 2
        = (4 * c2 * c0 - c1 ^ 2) / (4 * c2) := by
      field_simp
      ring
    have hpos : 0 < (4 * c2 * c0 - c1 ^ 2) / (4 * c2) := by
      apply div_pos <;> linarith
    linarith
  have habs := abs_lt_of_sq_lt_sq hlt hr.le
  have := (abs_lt.mp habs).1
  linarith

theorem hasDerivAt_antideriv (c2 c1 c0 t : ℝ) (hc2 : 0 < c2) (hdisc : c1 ^ 2 < 4 * c2 * c0) :
    HasDerivAt (fun t : ℝ =>
        ((t + c1 / (2 * c2)) * Real.sqrt (c2 * t ^ 2 + c1 * t + c0)
          + (c0 / c2 - (c1 / (2 * c2)) ^ 2) * Real.sqrt c2
            * Real.log (Real.sqrt c2 * (t + c1 / (2 * c2))
                + Real.sqrt (c2 * t ^ 2 + c1 * t + c0))) / 2)
      (Real.sqrt (c2 * t ^ 2 + c1 * t + c0)) t := by
  have hq := quad_pos c2 c1 c0 t hc2 hdisc
  have hL := logArg_pos c2 c1 c0 t hc2 hdisc
  have hs : 0 < Real.sqrt c2 := Real.sqrt_pos.mpr hc2
  have hs2 : Real.sqrt c2 ^ 2 = c2 := Real.sq_sqrt hc2.le
  have hr : 0 < Real.sqrt (c2 * t ^ 2 + c1 * t + c0) := Real.sqrt_pos.mpr hq
  have hr2 : Real.sqrt (c2 * t ^ 2 + c1 * t + c0) ^ 2 = c2 * t ^ 2 + c1 * t + c0 :=
    Real.sq_sqrt hq.le
  -- derivative of the quadratic
  have dq : HasDerivAt (fun t : ℝ => c2 * t ^ 2 + c1 * t + c0) (c2 * (2 * t) + c1) t := by
    have h1 : HasDerivAt (fun t : ℝ => t ^ 2) (2 * t) t := by
      simpa using hasDerivAt_pow 2 t
    have h2 : HasDerivAt (fun t : ℝ => c1 * t) c1 t := by
      simpa using (hasDerivAt_id t).const_mul c1
    exact ((h1.const_mul c2).fun_add h2).add_const c0
  have dr := dq.sqrt hq.ne'
  have dlin : HasDerivAt (fun t : ℝ => t + c1 / (2 * c2)) 1 t :=
    (hasDerivAt_id t).add_const _
  have d1 := dlin.fun_mul dr
  have dL := ((dlin.const_mul (Real.sqrt c2)).fun_add dr).log hL.ne'
  have dF := (d1.fun_add (dL.const_mul ((c0 / c2 - (c1 / (2 * c2)) ^ 2) * Real.sqrt c2))).div_const 2
  refine dF.congr_deriv ?_
  clear dF dL d1 dr dq dlin
  generalize Real.sqrt (c2 * t ^ 2 + c1 * t + c0) = r at *
  generalize Real.sqrt c2 = s at *
  have hc2' : c2 ≠ 0 := hc2.ne'
  have hr' : r ≠ 0 := hr.ne'
  have hL' : s * (t + c1 / (2 * c2)) + r ≠ 0 := hL.ne'
  have hD : (t * 2 * c2 + c1) * s + r * 2 * c2 ≠ 0 := by
    have : (t * 2 * c2 + c1) * s + r * 2 * c2 = 2 * c2 * (s * (t + c1 / (2 * c2)) + r) := by
      field_simp
    rw [this]
    positivity
  field_simp
  linear_combination (2 * r * (4 * c2 * c0 - c1 ^ 2)) * hs2
    - 4 * c2 * ((t * 2 * c2 + c1) * s + r * 2 * c2) * hr2


/-- for a positive-definite quadratic (c2 > 0, negative discriminant) the closed form IS the integral -/
theorem closedForm_eq_integral (c2 c1 c0 t0 t1 : ℝ) (hc2 : 0 < c2) (hdisc : c1 ^ 2 < 4 * c2 * c0) :
    closedForm c2 c1 c0 t0 t1 = ∫ t in t0..t1, Real.sqrt (c2 * t ^ 2 + c1 * t + c0) := by
  have hcont : Continuous (fun t : ℝ => Real.sqrt (c2 * t ^ 2 + c1 * t + c0)) := by
    fun_prop
  rw [intervalIntegral.integral_eq_sub_of_hasDerivAt
    (fun x _ => hasDerivAt_antideriv c2 c1 c0 x hc2 hdisc) (hcont.intervalIntegrable _ _)]
  unfold closedForm
  rw [Real.log_div (logArg_pos c2 c1 c0 t1 hc2 hdisc).ne' (logArg_pos c2 c1 c0 t0 hc2 hdisc).ne']
  ring

theorem integral_linear (A B a b : ℝ) :
    (∫ t in a..b, (B - 2 * A * t)) = (B * b - A * b ^ 2) - (B * a - A * a ^ 2) := by
  have hd : ∀ x ∈ Set.uIcc a b, HasDerivAt (fun t : ℝ => B * t - A * t ^ 2) (B - 2 * A * x) x := by
    intro x _
    have h1 : HasDerivAt (fun t : ℝ => t ^ 2) (2 * x) x := by
      simpa using hasDerivAt_pow 2 x
    have h2 : HasDerivAt (fun t : ℝ => B * t) B x := by
      simpa using (hasDerivAt_id x).const_mul B
    exact (h2.fun_sub (h1.const_mul A)).congr_deriv (by ring)
  have hcont : Continuous (fun t : ℝ => B - 2 * A * t) := by fun_prop
  rw [intervalIntegral.integral_eq_sub_of_hasDerivAt hd (hcont.intervalIntegrable _ _)]

theorem integral_abs_before (A B t0 t1 : ℝ) (hA : 0 < A) (h01 : t0 ≤ t1) (h : t1 ≤ B / (2 * A)) :
    (∫ t in t0..t1, |B - 2 * A * t|) = (B * t1 - A * t1 ^ 2) - (B * t0 - A * t0 ^ 2) := by
  rw [← integral_linear]
  apply intervalIntegral.integral_congr
  intro t ht
  rw [Set.uIcc_of_le h01] at ht
  have h2A : (0 : ℝ) < 2 * A := by linarith
  have : t * (2 * A) ≤ B := (le_div_iff₀ h2A).mp (ht.2.trans h)
  exact abs_of_nonneg (by linarith)

theorem integral_abs_after (A B t0 t1 : ℝ) (hA : 0 < A) (h01 : t0 ≤ t1) (h : B / (2 * A) ≤ t0) :
    (∫ t in t0..t1, |B - 2 * A * t|) = -((B * t1 - A * t1 ^ 2) - (B * t0 - A * t0 ^ 2)) := by
  rw [← integral_linear, ← intervalIntegral.integral_neg]
  apply intervalIntegral.integral_congr
  intro t ht
  rw [Set.uIcc_of_le h01] at ht
  have h2A : (0 : ℝ) < 2 * A := by linarith
  have : B ≤ t * (2 * A) := (div_le_iff₀ h2A).mp (h.trans ht.1)
  exact abs_of_nonpos (by linarith)

/-- fold-back (cusp) case: speed |B - 2 A t| with A > 0; three cases of the code's fallback, tstar = B/(2A) -/
theorem foldback_before (A B t0 t1 : ℝ) (hA : 0 < A) (h01 : t0 ≤ t1) (h : t1 ≤ B / (2 * A)) :
    (∫ t in t0..t1, |B - 2 * A * t|) = A * (t0 ^ 2 - t1 ^ 2) - B * (t0 - t1) := by
  rw [integral_abs_before A B t0 t1 hA h01 h]
  ring

theorem foldback_after (A B t0 t1 : ℝ) (hA : 0 < A) (h01 : t0 ≤ t1) (h : B / (2 * A) ≤ t0) :
    (∫ t in t0..t1, |B - 2 * A * t|) = A * (t1 ^ 2 - t0 ^ 2) - B * (t1 - t0) := by
  rw [integral_abs_after A B t0 t1 hA h01 h]
  ring

theorem foldback_across (A B t0 t1 : ℝ) (hA : 0 < A) (h0 : t0 ≤ B / (2 * A)) (h1 : B / (2 * A) ≤ t1) :
    (∫ t in t0..t1, |B - 2 * A * t|) = A * (t1 ^ 2 + t0 ^ 2) - B * (t1 + t0) + B ^ 2 / (2 * A) := by
  have hcont : Continuous (fun t : ℝ => |B - 2 * A * t|) := by fun_prop
  rw [← intervalIntegral.integral_add_adjacent_intervals
    (hcont.intervalIntegrable t0 (B / (2 * A))) (hcont.intervalIntegrable (B / (2 * A)) t1),
    integral_abs_before A B t0 (B / (2 * A)) hA h0 le_rfl,
    integral_abs_after A B (B / (2 * A)) t1 hA h1 le_rfl]
  field_simp
  ring

/-- when a = -lam * b (lam > 0: the control points are collinear and the curve folds back)
    the speed |b + 2 a t| is | |b| - 2 |a| t | -/
theorem speed_foldback (ax ay bx by' lam t : ℝ) (hl : 0 < lam) (hax : ax = -lam * bx) (hay : ay = -lam * by') :
    Real.sqrt ((bx + 2 * ax * t) ^ 2 + (by' + 2 * ay * t) ^ 2)
      = |Real.sqrt (bx ^ 2 + by' ^ 2) - 2 * Real.sqrt (ax ^ 2 + ay ^ 2) * t| := by
  subst hax hay
  have e1 : (bx + 2 * (-lam * bx) * t) ^ 2 + (by' + 2 * (-lam * by') * t) ^ 2
      = (1 - 2 * lam * t) ^ 2 * (bx ^ 2 + by' ^ 2) := by ring
  have e2 : (-lam * bx) ^ 2 + (-lam * by') ^ 2 = lam ^ 2 * (bx ^ 2 + by' ^ 2) := by ring
  rw [e1, e2, Real.sqrt_mul (sq_nonneg _), Real.sqrt_mul (sq_nonneg _), Real.sqrt_sq_eq_abs,
    Real.sqrt_sq hl.le]
  have e3 : Real.sqrt (bx ^ 2 + by' ^ 2) - 2 * (lam * Real.sqrt (bx ^ 2 + by' ^ 2)) * t
      = (1 - 2 * lam * t) * Real.sqrt (bx ^ 2 + by' ^ 2) := by ring
  rw [e3, abs_mul, abs_of_nonneg (Real.sqrt_nonneg _)]

end SvgVerif.Lemmas.QuadLength
