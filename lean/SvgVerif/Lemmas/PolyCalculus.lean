import SvgVerif.Spec.Bernstein
import Mathlib.Analysis.Calculus.Deriv.Pow
import Mathlib.Analysis.Calculus.Deriv.Add
import Mathlib.Analysis.Calculus.Deriv.Mul
import Mathlib.Analysis.Calculus.IteratedDeriv.Defs
import Mathlib.Analysis.Complex.RealDeriv
/-! Calculus facts about `Spec.polyEval`: the formal derivative of a coefficient list is
the derivative of the function it denotes (any nontrivially normed field; real parameter
with complex coefficients). -/
namespace SvgVerif.Spec

section
variable {K : Type} [Field K]

@[simp] theorem polyDeriv_length (cs : List K) : (polyDeriv cs).length = cs.length - 1 := by
  induction cs with
  | nil => rfl
  | cons c cs ih =>
    cases cs with
    | nil => rfl
    | cons c' cs => simp [polyDeriv, ih]

theorem polyDerivN_of_length_le (n : ℕ) (cs : List K) (h : cs.length ≤ n) : polyDerivN n cs = [] := by
  induction n generalizing cs with
  | zero => simpa [polyDerivN] using h
  | succ n ih =>
    unfold polyDerivN
    apply ih
    simp; omega

theorem polyEval_nil (t : K) : polyEval ([] : List K) t = 0 := rfl
end

section
variable {𝕜 : Type} [NontriviallyNormedField 𝕜]

theorem hasDerivAt_polyEval (cs : List 𝕜) (t : 𝕜) :
    HasDerivAt (polyEval cs) (polyEval (polyDeriv cs) t) t := by
  induction cs with
  | nil => simpa [polyEval, polyDeriv] using hasDerivAt_const t (0 : 𝕜)
  | cons c cs ih =>
    cases cs with
    | nil =>
      have : polyEval [c] = fun _ => c := by funext x; simp [polyEval]
      rw [this]; simpa [polyEval, polyDeriv] using hasDerivAt_const t c
    | cons c' cs =>
      have h1 : HasDerivAt (fun x : 𝕜 => c * x ^ (c' :: cs).length)
          (c * (((c' :: cs).length : 𝕜) * t ^ ((c' :: cs).length - 1))) t :=
        (hasDerivAt_pow _ t).const_mul c
      have h2 : HasDerivAt (fun x => c * x ^ (c' :: cs).length + polyEval (c' :: cs) x)
          (c * (((c' :: cs).length : 𝕜) * t ^ ((c' :: cs).length - 1)) + polyEval (polyDeriv (c' :: cs)) t) t :=
        h1.fun_add ih
      have e : polyEval (c :: c' :: cs) = fun x => c * x ^ (c' :: cs).length + polyEval (c' :: cs) x := by
        funext x; rfl
      have e2 : polyEval (polyDeriv (c :: c' :: cs)) t =
          c * (((c' :: cs).length : 𝕜) * t ^ ((c' :: cs).length - 1)) + polyEval (polyDeriv (c' :: cs)) t := by
        show ((c' :: cs).length : 𝕜) * c * t ^ (polyDeriv (c' :: cs)).length + _ = _
        rw [polyDeriv_length]; ring
      rw [e, e2]; exact h2

theorem deriv_polyEval (cs : List 𝕜) : deriv (polyEval cs) = polyEval (polyDeriv cs) :=
  funext fun t => (hasDerivAt_polyEval cs t).deriv

/-- the `n`-th derivative of the polynomial function is the function of the `n`-fold formal
derivative -/
theorem iteratedDeriv_polyEval (n : ℕ) (cs : List 𝕜) :
    iteratedDeriv n (polyEval cs) = polyEval (polyDerivN n cs) := by
  induction n generalizing cs with
  | zero => simp [polyDerivN]
  | succ n ih => rw [iteratedDeriv_succ', deriv_polyEval, ih]; rfl
end

/-- real parameter, complex control points: `t ↦ polyEval cs (t : ℂ)` -/
theorem hasDerivAt_polyEval_ofReal (cs : List ℂ) (t : ℝ) :
    HasDerivAt (fun x : ℝ => polyEval cs (x : ℂ)) (polyEval (polyDeriv cs) (t : ℂ)) t :=
  (hasDerivAt_polyEval cs (t : ℂ)).comp_ofReal

end SvgVerif.Spec
