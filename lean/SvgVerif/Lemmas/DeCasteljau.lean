import Mathlib.Algebra.Polynomial.Basic
import Mathlib.Algebra.Polynomial.Eval.Defs
import Mathlib.Algebra.Polynomial.Monomial
import Mathlib.Algebra.Polynomial.Inductions
import Mathlib.Algebra.Polynomial.AlgebraMap
import Mathlib.Data.Nat.Choose.Sum
import Mathlib.Tactic.Ring
import Mathlib.Tactic.FieldSimp
/-! Function-level core of the all-degree de Casteljau / Bernstein theorems (used by
`Props/C19General.lean`).  Control values are an infinite sequence `f : ℕ → K`; `D t` is one
de Casteljau level; `phi f` is the linear functional on `K[X]` with `X^i ↦ f i`, which turns
every identity into the binomial theorem in the commutative ring `K[X]`. -/
namespace SvgVerif.Lemmas.DeCasteljau
open Polynomial Finset

variable {K : Type} [Field K]

/-- linear functional on polynomials determined by `X^i ↦ f i` -/
noncomputable def phi (f : ℕ → K) : K[X] →ₗ[K] K := Polynomial.lsum (fun i => LinearMap.mulRight K (f i))

theorem phi_monomial (f : ℕ → K) (i : ℕ) (a : K) : phi f (monomial i a) = a * f i := by
  simp [phi, Polynomial.lsum_apply, Polynomial.sum_monomial_index]

theorem phi_X_pow (f : ℕ → K) (i : ℕ) : phi f (X ^ i) = f i := by
  rw [← monomial_one_right_eq_X_pow, phi_monomial, one_mul]

theorem phi_C_mul (f : ℕ → K) (a : K) (p : K[X]) : phi f (C a * p) = a * phi f p := by
  rw [C_mul', map_smul, smul_eq_mul]

/-- one de Casteljau level on an infinite sequence of control values -/
def D (t : K) (f : ℕ → K) : ℕ → K := fun i => (1 - t) * f i + t * f (i + 1)

/-- the polynomial `(1 - t) + t X` -/
noncomputable def Lp (t : K) : K[X] := C (1 - t) + C t * X

theorem phi_D (t : K) (f : ℕ → K) (p : K[X]) : phi (D t f) p = phi f (p * Lp t) := by
  induction p using Polynomial.induction_on' with
  | add p q hp hq => rw [map_add, hp, hq, add_mul, map_add]
  | monomial i a =>
    rw [Lp, mul_add, ← mul_assoc, monomial_mul_C, monomial_mul_C, monomial_mul_X, map_add, phi_monomial, phi_monomial,
      phi_monomial, D]
    ring

theorem phi_iter (t : K) (n : ℕ) (f : ℕ → K) (p : K[X]) : phi ((D t)^[n] f) p = phi f (p * Lp t ^ n) := by
  induction n generalizing f with
  | zero => simp
  | succ n ih => rw [Function.iterate_succ_apply, ih, phi_D, mul_assoc, ← pow_succ]

theorem iter_eq_phi (t : K) (n i : ℕ) (f : ℕ → K) : (D t)^[n] f i = phi f (X ^ i * Lp t ^ n) := by
  rw [← phi_iter, phi_X_pow]

/-- the Bernstein combination of the values `f 0 … f n` -/
def bernF (n : ℕ) (f : ℕ → K) (t : K) : K :=
  ∑ m ∈ range (n + 1), (n.choose m : K) * (1 - t) ^ (n - m) * t ^ m * f m

/-- master lemma: a Bernstein-type combination of `phi f (x^m y^(n-m))` is `phi f` of a power -/
theorem sum_binom_phi (f : ℕ → K) (n : ℕ) (x y : K[X]) (a b : K) :
    ∑ m ∈ range (n + 1), (n.choose m : K) * b ^ (n - m) * a ^ m * phi f (x ^ m * y ^ (n - m))
      = phi f ((C a * x + C b * y) ^ n) := by
  rw [add_pow, map_sum]
  refine Finset.sum_congr rfl fun m _ => ?_
  rw [← phi_C_mul]
  congr 1
  rw [mul_pow, mul_pow, ← C_pow, ← C_pow]
  simp only [C_mul, ← C_eq_natCast]
  ring

theorem Lp_eq (t : K) : C t * X + C (1 - t) * 1 = Lp t := by rw [Lp]; ring

/-- **de Casteljau evaluates the Bernstein form**, any degree -/
theorem iter_eq_bernF (t : K) (n : ℕ) (f : ℕ → K) : (D t)^[n] f 0 = bernF n f t := by
  rw [iter_eq_phi, pow_zero, one_mul, ← Lp_eq, ← sum_binom_phi]
  simp only [bernF, one_pow, mul_one, phi_X_pow]

/-- left piece: its control values are the first entries of the de Casteljau levels -/
theorem left_piece (t u : K) (n : ℕ) (f : ℕ → K) :
    bernF n (fun k => (D t)^[k] f 0) u = bernF n f (u * t) := by
  have h : ∀ k, (D t)^[k] f 0 = phi f (Lp t ^ k * 1 ^ (n - k)) := by
    intro k; rw [iter_eq_phi]; simp
  rw [← iter_eq_bernF (u * t) n f, iter_eq_phi, pow_zero, one_mul]
  simp only [bernF, h]
  rw [sum_binom_phi]
  congr 2
  simp only [Lp, C_sub, C_mul, C_1]
  ring

/-- right piece: its control values are the last entries of the levels, taken from the top down -/
theorem right_piece (t u : K) (n : ℕ) (f : ℕ → K) :
    bernF n (fun j => (D t)^[n - j] f j) u = bernF n f (t + u * (1 - t)) := by
  rw [← iter_eq_bernF (t + u * (1 - t)) n f]
  simp only [bernF, iter_eq_phi]
  rw [sum_binom_phi, pow_zero, one_mul]
  congr 2
  simp only [Lp, C_sub, C_mul, C_add, C_1]
  ring
end SvgVerif.Lemmas.DeCasteljau
