import Mathlib.Data.Real.Basic
import Mathlib.Algebra.Order.AbsoluteValue.Basic
import Mathlib.Tactic.Ring
import Mathlib.Tactic.Linarith
import Mathlib.Tactic.Positivity

/-!
# Convex hull bounds (squared Euclidean distance, coordinates)

A point of a line segment / cubic Bezier curve is no farther from a point `q` than the farthest
control point.  Everything is stated in real coordinates with squared distances, so no square
roots occur.  The cubic case is obtained by iterating the two-point case de Casteljau style.
-/

namespace SvgVerif.Lemmas.Hull

/-- two-point convexity: a convex combination of two vectors of squared length at most `R` has
squared length at most `R` -/
theorem conv2 (a0 b0 a1 b1 R s : ℝ) (hs0 : 0 ≤ s) (hs1 : s ≤ 1)
    (h0 : a0 ^ 2 + b0 ^ 2 ≤ R) (h1 : a1 ^ 2 + b1 ^ 2 ≤ R) :
    ((1 - s) * a0 + s * a1) ^ 2 + ((1 - s) * b0 + s * b1) ^ 2 ≤ R := by
  have key : ((1 - s) * a0 + s * a1) ^ 2 + ((1 - s) * b0 + s * b1) ^ 2
      = (1 - s) * (a0 ^ 2 + b0 ^ 2) + s * (a1 ^ 2 + b1 ^ 2)
        - s * (1 - s) * ((a0 - a1) ^ 2 + (b0 - b1) ^ 2) := by ring
  have hs1' : 0 ≤ 1 - s := by linarith
  have hd : 0 ≤ s * (1 - s) * ((a0 - a1) ^ 2 + (b0 - b1) ^ 2) := by positivity
  have e0 : (1 - s) * (a0 ^ 2 + b0 ^ 2) ≤ (1 - s) * R := mul_le_mul_of_nonneg_left h0 hs1'
  have e1 : s * (a1 ^ 2 + b1 ^ 2) ≤ s * R := mul_le_mul_of_nonneg_left h1 hs0
  rw [key]
  linarith

/-- a point of a line segment is no farther from `q` than the farther endpoint -/
theorem line_within (x0 y0 x1 y1 qx qy r t : ℝ) (ht0 : 0 ≤ t) (ht1 : t ≤ 1) (hr : 0 ≤ r)
    (h0 : (x0 - qx) ^ 2 + (y0 - qy) ^ 2 ≤ r ^ 2) (h1 : (x1 - qx) ^ 2 + (y1 - qy) ^ 2 ≤ r ^ 2) :
    (((1 - t) * x0 + t * x1) - qx) ^ 2 + (((1 - t) * y0 + t * y1) - qy) ^ 2 ≤ r ^ 2 := by
  have _ := hr
  refine le_of_eq_of_le ?_ (conv2 _ _ _ _ (r ^ 2) t ht0 ht1 h0 h1)
  ring

/-- a point of a cubic Bezier curve is no farther from `q` than the farthest control point (convex hull property, stated with squared Euclidean distances in coordinates) -/
theorem cubic_within (x0 y0 x1 y1 x2 y2 x3 y3 qx qy r t : ℝ) (ht0 : 0 ≤ t) (ht1 : t ≤ 1) (hr : 0 ≤ r)
    (h0 : (x0 - qx) ^ 2 + (y0 - qy) ^ 2 ≤ r ^ 2) (h1 : (x1 - qx) ^ 2 + (y1 - qy) ^ 2 ≤ r ^ 2)
    (h2 : (x2 - qx) ^ 2 + (y2 - qy) ^ 2 ≤ r ^ 2) (h3 : (x3 - qx) ^ 2 + (y3 - qy) ^ 2 ≤ r ^ 2) :
    (((1 - t) ^ 3 * x0 + 3 * (1 - t) ^ 2 * t * x1 + 3 * (1 - t) * t ^ 2 * x2 + t ^ 3 * x3) - qx) ^ 2
      + (((1 - t) ^ 3 * y0 + 3 * (1 - t) ^ 2 * t * y1 + 3 * (1 - t) * t ^ 2 * y2 + t ^ 3 * y3) - qy) ^ 2 ≤ r ^ 2 := by
  have _ := hr
  -- de Casteljau: three linear points, two quadratic points, one cubic point
  have l0 := conv2 _ _ _ _ (r ^ 2) t ht0 ht1 h0 h1
  have l1 := conv2 _ _ _ _ (r ^ 2) t ht0 ht1 h1 h2
  have l2 := conv2 _ _ _ _ (r ^ 2) t ht0 ht1 h2 h3
  have q0 := conv2 _ _ _ _ (r ^ 2) t ht0 ht1 l0 l1
  have q1 := conv2 _ _ _ _ (r ^ 2) t ht0 ht1 l1 l2
  refine le_of_eq_of_le ?_ (conv2 _ _ _ _ (r ^ 2) t ht0 ht1 q0 q1)
  ring

/-- a vector `c • (vx, vy)` with `(vx, vy)` a unit vector and `|c| ≤ r` has squared length at most `r²` -/
theorem scaled_unit_within (c r vx vy : ℝ) (hv : vx ^ 2 + vy ^ 2 = 1) (hc : |c| ≤ r) :
    (c * vx) ^ 2 + (c * vy) ^ 2 ≤ r ^ 2 := by
  have e : (c * vx) ^ 2 + (c * vy) ^ 2 = c ^ 2 := by
    have : (c * vx) ^ 2 + (c * vy) ^ 2 = c ^ 2 * (vx ^ 2 + vy ^ 2) := by ring
    rw [this, hv, mul_one]
  rw [e, ← sq_abs c]
  exact pow_le_pow_left₀ (abs_nonneg c) hc 2

end SvgVerif.Lemmas.Hull
