import SvgVerif.Model.Proto
import SvgVerif.Model.Poly
/-! Correspondence driver: one operation per input line, one canonical result per
output line.  Run as `lake env lean --run Driver.lean < ops.txt`.  The Python
harness feeds the same operations to the real svgpathtools code and diffs. -/
open SvgVerif.Model SvgVerif.Model.Proto

def rtol : Rat := 1 / 100000
def atol : Rat := 1 / 100000000

def handle (cmd : String) (args : List String) : String :=
  match cmd with
  | "polyroots01" =>
    match parseRats? args >>= pairUp with
    | some rs => "ok " ++ showRats (Poly.polyroots01 rtol atol rs)
    | none => "bad-args"
  | "polyroots01_buggy" =>   -- pre-repair pipeline, kept to replay finding F16
    match parseRats? args >>= pairUp with
    | some rs =>
      let re := (rs.filter (fun r => isclose rtol atol r.2 0)).map (·.1)
      let re := re.filter (fun t => decide (0 ≤ t) && decide (t ≤ 1))
      "ok " ++ showRats (Poly.dedupBuggy (isclose rtol atol) re)
    | none => "bad-args"
  | "ratlimit" =>
    match splitBar args with
    | [f, g, [t]] =>
      match parseRats? f, parseRats? g, parseRat? t with
      | some f, some g, some t =>
        match Poly.rationalLimit (g.length + 2) f g t with
        | .value v => "value " ++ showRat v
        | .noLimit => "nolimit"
        | .fuel => "fuel"
      | _, _, _ => "bad-args"
    | _ => "bad-args"
  | _ => "bad-op"

partial def loop (h : IO.FS.Stream) (out : IO.FS.Stream) : IO Unit := do
  let line ← h.getLine
  if line.isEmpty then return ()
  let ws := words (line.trimAscii.toString)
  match ws with
  | [] => out.putStrLn "empty"
  | cmd :: args => out.putStrLn (handle cmd args)
  loop h out

def main : IO Unit := do
  loop (← IO.getStdin) (← IO.getStdout)
