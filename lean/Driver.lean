import SvgVerif.Model.Proto
import SvgVerif.Model.Poly
import SvgVerif.Model.PathParam
import SvgVerif.Model.PathOps
import SvgVerif.Model.PathState
import SvgVerif.Model.CubicCache
import SvgVerif.Model.ArcCache
import SvgVerif.Model.SegHeap
import SvgVerif.Model.InvArc
import SvgVerif.Model.Parser
import SvgVerif.Model.Lexer
import SvgVerif.Model.Serializer
import SvgVerif.Model.BBox
import SvgVerif.Model.Radial
import SvgVerif.Model.Enclose
import SvgVerif.Model.Length
import SvgVerif.Model.Smoothing
import SvgVerif.Model.Flatten
import SvgVerif.Model.TransformParse
import SvgVerif.Spec.Shapes
import SvgVerif.Model.Doc
import SvgVerif.Model.Intersect
import SvgVerif.Model.ArcParam
import SvgVerif.Model.ArcPointToT
import SvgVerif.Model.Area
import SvgVerif.Model.Tangent
import SvgVerif.Model.BezierN
import SvgVerif.Model.ArcBBox
import SvgVerif.Model.ArcApprox
/-! Correspondence driver: one operation per input line, one canonical result per
output line.  Run as `lake env lean --run Driver.lean < ops.txt`.  The Python
harness feeds the same operations to the real svgpathtools code and diffs. -/
open SvgVerif.Model SvgVerif.Model.Proto

def showIdxT : Option (Nat × Rat) → String
  | none => "none"
  | some (k, t) => s!"{k} {showRat t}"

def rtol : Rat := 1 / 100000
def atol : Rat := 1 / 100000000

/-! C16: one line = one history; ops separated by `;` -/
open SvgVerif.Model.PathState in
def parseSegs (ws : List String) : Option (List (Seg Int)) :=
  (ws.mapM parseInt? >>= pairUp).map (fun l => l.map fun (a, b) => ⟨a, b⟩)

open SvgVerif.Model.PathState in
def parseOp (ws : List String) : Option (Op Int Rat Nat) :=
  match ws with
  | ["set", i, a, b] => do pure (.setItem (← parseInt? i) ⟨← parseInt? a, ← parseInt? b⟩)
  | "slice" :: a :: b :: rest => do pure (.setSlice (← parseInt? a) (← parseInt? b) (← parseSegs rest))
  | ["del", i] => do pure (.delItem (← parseInt? i))
  | ["ins", i, a, b] => do pure (.insert (← parseInt? i) ⟨← parseInt? a, ← parseInt? b⟩)
  | ["app", a, b] => do pure (.append ⟨← parseInt? a, ← parseInt? b⟩)
  | "ext" :: rest => do pure (.extend (← parseSegs rest))
  | ["pop", i] => do pure (.pop (← parseInt? i))
  | ["rev"] => some .reverse
  | ["sstart", p] => do pure (.setStart (← parseInt? p))
  | ["send", p] => do pure (.setEnd (← parseInt? p))
  | ["qlen"] => some .qLength
  | ["qlenat", a] => do pure (.qLengthAt (← a.toNat?))
  | ["qT2t", T] => do pure (.qT2t (← parseRat? T))
  | ["qpt", T] => do pure (.qPoint (← parseRat? T))
  | ["qstart"] => some .qStart
  | ["qend"] => some .qEnd
  | _ => none

open SvgVerif.Model.PathState in
def showOut : Out Int Rat → String
  | .unit => "u"
  | .seg s => s!"seg {s.start} {s.stop}"
  | .len l => "len " ++ showRat l
  | .idxT none => "it none"
  | .idxT (some (k, t)) => s!"it {k} {showRat t}"
  | .pt none => "pt none"
  | .pt (some p) => s!"pt {p}"
  | .emptyLast => "it -1 1"
  | .indexError => "ie"

open SvgVerif.Model.PathState in
def runHistory (buggySetter : Bool) (line : List String) : String :=
  let parts := (" ".intercalate line).splitOn ";" |>.map words
  match parts with
  | ("init" :: segs) :: ops =>
    match parseSegs segs, ops.mapM parseOp with
    | some segs, some ops =>
      let len1 : Nat → Seg Int → Rat := fun a s => ((s.stop - s.start).natAbs : Nat) * (1 + 1 / (10 : Rat) ^ a)
      let falsy1 : Int → Bool := fun p => p == 0
      let (_, outs) := ops.foldl (fun (acc : PState Int Rat Nat × List String) op =>
          let (s, os) := acc
          let (s1, o) := match buggySetter, op with
            | true, .setStart p => (setStartBuggy s p, Out.unit)
            | _, _ => step len1 12 falsy1 s op
          -- after every operation also report the segment list, so drift is caught at once
          (s1, (showOut o ++ " [" ++ " ".intercalate (s1.segs.map fun g => s!"{g.start},{g.stop}") ++ "]") :: os))
        (fresh segs, [])
      " ; ".intercalate outs.reverse
    | _, _ => "bad-args"
  | _ => "bad-args"

/-! C16: a path and its shallow copy.  `twinhist init <segs> ; <op> ; ... ; copy ; o <op> ; t <op> ; ...`: untagged ops
before `copy` act on the single path, afterwards `o` = the original, `t` = the copy.  After every op both segment lists
are reported. -/
open SvgVerif.Model.PathState in
def runTwinHistory (line : List String) : String :=
  let parts := (" ".intercalate line).splitOn ";" |>.map words
  let len1 : Nat → Seg Int → Rat := fun a s => ((s.stop - s.start).natAbs : Nat) * (1 + 1 / (10 : Rat) ^ a)
  let falsy1 : Int → Bool := fun p => p == 0
  let showSegs := fun (s : PState Int Rat Nat) => "[" ++ " ".intercalate (s.segs.map fun g => s!"{g.start},{g.stop}") ++ "]"
  match parts with
  | ("init" :: segs) :: ops =>
    match parseSegs segs with
    | some segs =>
      let (_, _, outs) := ops.foldl (fun (acc : (PState Int Rat Nat × PState Int Rat Nat) × Bool × List String) ws =>
          let (st, copied, os) := acc
          match copied, ws with
          | false, ["copy"] => ((st.1, st.1), true, ("copied " ++ showSegs st.1) :: os)
          | false, _ =>
            match parseOp ws with
            | some op =>
              let r := step len1 12 falsy1 st.1 op
              ((r.1, r.1), false, (showOut r.2 ++ " " ++ showSegs r.1) :: os)
            | none => (st, copied, "bad-op" :: os)
          | true, tag :: rest =>
            match (if tag == "o" then some Who.orig else if tag == "t" then some Who.twin else none), parseOp rest with
            | some w, some op =>
              let r := stepTwin len1 12 falsy1 st w op
              (r.1, true, (showOut r.2 ++ " " ++ showSegs r.1.1 ++ " " ++ showSegs r.1.2) :: os)
            | _, _ => (st, copied, "bad-op" :: os)
          | true, [] => (st, copied, "bad-op" :: os))
        ((fresh segs, fresh segs), false, [])
      " ; ".intercalate outs.reverse
    | none => "bad-args"
  | _ => "bad-args"

/-! C16: CubicBezier length cache.  ops: `req <bp label> <error> <min_depth>` separated by `;`.
The integrator is the identity on its request, so each answer shows which request computed it. -/
open SvgVerif.Model.CubicCache in
def runCubCache (buggy : Bool) (line : List String) : String :=
  let parts := (" ".intercalate line).splitOn ";" |>.map words
  let compute : Nat → Rat → Nat → (Nat × Rat × Nat) := fun b e d => (b, e, d)
  let (_, outs) := parts.foldl (fun (acc : Option (CubCache Nat Rat Nat (Nat × Rat × Nat)) × List String) ws =>
      let (c, os) := acc
      match ws with
      | ["req", b, e, d] =>
        match b.toNat?, parseRat? e, d.toNat? with
        | some b, some e, some d =>
          let (v, c') := if buggy then cubicLengthBuggy compute c b e d else cubicLength compute c b e d
          (c', s!"{v.1}:{showRat v.2.1}:{v.2.2}" :: os)
        | _, _, _ => (c, "bad" :: os)
      | _ => (c, "bad" :: os)) (none, [])
  " ; ".intercalate outs.reverse

/-! C16: the heap of Bezier segments and shared length records.  Control-point tuples are indices (`b` and `b+100` are
each other's reversal), the integrator is the identity on its request except that tuples with index = 0 mod 100 have
the falsy length 0 -/
open SvgVerif.Model.SegHeap in
def runSegHeap (line : List String) : String :=
  match line with
  | fx :: rest =>
    let parts := (" ".intercalate rest).splitOn ";" |>.map words
    let compute : Nat → Rat → Nat → (Nat × Rat × Nat) := fun b e d => if b % 100 = 0 then (0, 0, 0) else (b, e, d)
    let rev : Nat → Nat := fun b => if b < 100 then b + 100 else b - 100
    let truthy : (Nat × Rat × Nat) → Bool := fun v => v.1 % 100 != 0
    let ops : List (Option (Op Nat Rat Nat)) := parts.map (fun ws =>
      match ws with
      | ["new", b] => b.toNat?.map Op.new
      | ["set", o, b] => match o.toNat?, b.toNat? with | some o, some b => some (Op.setBp o b) | _, _ => none
      | ["len", o, e, d] => match o.toNat?, parseRat? e, d.toNat? with | some o, some e, some d => some (Op.length o e d) | _, _, _ => none
      | ["rev", o] => o.toNat?.map Op.reversed
      | ["copy", o] => o.toNat?.map Op.copy
      | ["deep", o] => o.toNat?.map Op.deepcopy
      | _ => none)
    if ops.any Option.isNone then "bad-op" else
    let outs := run (fx == "1") compute rev truthy (Heap.empty : Heap Nat Rat Nat (Nat × Rat × Nat)) (ops.filterMap id)
    " ; ".intercalate (outs.map (fun o => match o with
      | none => "-"
      | some v => if v.1 % 100 = 0 then "0" else s!"{v.1}:{showRat v.2.1}:{v.2.2}"))
  | _ => "bad-op"

/-! C16/C06: Arc.length cache; `hash` is the identity on the index of the field set, the integrator the identity on its request -/
open SvgVerif.Model.ArcCache in
def runArcCache (line : List String) : String :=
  let parts := (" ".intercalate line).splitOn ";" |>.map words
  let compute : Nat → Rat → Nat → (Nat × Rat × Nat) := fun b e d => (b, e, d)
  let (_, outs) := parts.foldl (fun (acc : Option (Entry Nat Rat Nat (Nat × Rat × Nat)) × List String) ws =>
      let (c, os) := acc
      match ws with
      | ["req", b, e, d] =>
        match b.toNat?, parseRat? e, d.toNat? with
        | some b, some e, some d =>
          let (v, c') := arcLength (fun (x : Nat) => x) compute c b e d
          (c', s!"{v.1}:{showRat v.2.1}:{v.2.2}" :: os)
        | _, _, _ => (c, "bad" :: os)
      | _ => (c, "bad" :: os)) (none, [])
  " ; ".intercalate outs.reverse

/-! C07 -/
open SvgVerif.Model.InvArc in
def showIl : IlRes Rat → String
  | .value t => "value " ++ showRat t
  | .stalled t => "stalled " ++ showRat t
  | .valueError => "valueerror"
  | .assertion => "assert"
  | .maxits => "maxits"

/-- stub arc-length function `t ↦ L (a t + (1-a) t²)` -/
def stubLen (L a : Rat) (t : Rat) : Rat := L * (a * t + (1 - a) * t * t)

open SvgVerif.Model.InvArc in
def runInvPath (ws : List String) : String :=
  match splitBar ws with
  | [[sTol, maxits, s], segs] =>
    match parseRat? sTol, maxits.toNat?, parseRat? s with
    | some sTol, some maxits, some s =>
      -- segs: triples kind L a
      let rec triples : List String → Option (List (String × Rat × Rat))
        | [] => some []
        | k :: l :: a :: r => do pure ((k, ← parseRat? l, ← parseRat? a) :: (← triples r))
        | _ => none
      match triples segs with
      | some ts =>
        let lens := ts.map (fun x => x.2.1)
        let inv : Nat → Rat → IlRes Rat := fun k r =>
          match ts[k]? with
          | some ("line", L, _) => invLine L r
          | some (_, L, a) => invSeg (stubLen L a) sTol maxits r
          | none => .assertion
        showIl (invPath inv lens s)
      | none => "bad-args"
    | _, _, _ => "bad-args"
  | _ => "bad-args"

open SvgVerif.Model.InvArc in
def runStall (buggy : Bool) (ws : List String) : String :=
  match ws.mapM (·.toNat?) with
  | some [cbits, maxits] =>
    let c := Float.ofBits (UInt64.ofNat cbits)
    let len : Float → Float := fun t => if t < c then 0.0 else 1.0
    let close : Float → Bool := fun st => Float.abs (st - 0.5) < 1e-12
    let below : Float → Bool := fun st => st < 0.5
    let mid : Float → Float → Float := fun a b => (a + b) / 2
    let eqb : Float → Float → Bool := fun a b => a == b
    let res := if buggy then bisectBuggy mid eqb len close below maxits 0.0 1.0
               else bisect mid eqb len close below maxits 0.0 1.0
    match res with
    | .ret t => s!"ret {t.toBits.toNat}"
    | .stall t => s!"stall {t.toBits.toNat}"
    | .maxits => "maxits"
  | _ => "bad-args"

/-! C02 / C01: parser at token level and the tokenizer -/
open SvgVerif.Model.Parser in
def showSeg : Seg Rat → String
  | .line a b => s!"L {showRat a.1} {showRat a.2} {showRat b.1} {showRat b.2}"
  | .quad a c b => s!"Q {showRat a.1} {showRat a.2} {showRat c.1} {showRat c.2} {showRat b.1} {showRat b.2}"
  | .cubic a c1 c2 b => s!"C {showRat a.1} {showRat a.2} {showRat c1.1} {showRat c1.2} {showRat c2.1} {showRat c2.2} {showRat b.1} {showRat b.2}"
  | .arc a r rot l sw b => s!"A {showRat a.1} {showRat a.2} {showRat r.1} {showRat r.2} {showRat rot} {if l then 1 else 0} {if sw then 1 else 0} {showRat b.1} {showRat b.2}"

open SvgVerif.Model.Parser in
def showErr : Err → String
  | .implicitWithoutCommand => "err implicit"
  | .popFromEmpty => "err pop"
  | .notANumber => "err notnum"
  | .noneNotInStr => "err typeerror"
  | .noStartPos => "err nostart"
  | .arcStartEqEnd => "err assert"
  | .fuel => "err fuel"

open SvgVerif.Model.Parser in
def parseTokWord (w : String) : Option (Tok Rat) :=
  match w.toList with
  | ['c', l] => some (.cmd l.toUpper (l.isUpper))
  | _ => (parseRat? w).map .num

open SvgVerif.Model.Parser in
def runParse (legacy : Bool) (ws : List String) : String :=
  match ws with
  | cx :: cy :: rest =>
    match parseRat? cx, parseRat? cy, rest.mapM parseTokWord with
    | some cx, some cy, some ts =>
      match parseToks legacy (cx, cy) ts with
      | .ok (segs, closed) => (s!"ok {closed} " ++ " ; ".intercalate (segs.map showSeg)).trimAsciiEnd.toString
      | .error e => showErr e
    | _, _, _ => "bad-args"
  | _ => "bad-args"

open SvgVerif.Model.Lexer in
def runLex (ws : List String) : String :=
  match ws.mapM (·.toNat?) with
  | some cps =>
    let cs := cps.map Char.ofNat
    "|".intercalate ((tokenize cs).map fun t => match t with
      | .cmd c => String.singleton c
      | .num s => String.ofList s)
  | none => "bad-args"

/-! C01: serializer at token level -/
open SvgVerif.Model.Parser in
def parseSegWords : List String → Option (Seg Rat)
  | ["L", a, b, c, d] => do pure (.line (← parseRat? a, ← parseRat? b) (← parseRat? c, ← parseRat? d))
  | ["Q", a, b, c, d, e, f] => do
      pure (.quad (← parseRat? a, ← parseRat? b) (← parseRat? c, ← parseRat? d) (← parseRat? e, ← parseRat? f))
  | ["C", a, b, c, d, e, f, g, h] => do
      pure (.cubic (← parseRat? a, ← parseRat? b) (← parseRat? c, ← parseRat? d) (← parseRat? e, ← parseRat? f)
        (← parseRat? g, ← parseRat? h))
  | ["A", a, b, rx, ry, rot, l, sw, e, f] => do
      pure (.arc (← parseRat? a, ← parseRat? b) (← parseRat? rx, ← parseRat? ry) (← parseRat? rot) (l == "1") (sw == "1")
        (← parseRat? e, ← parseRat? f))
  | _ => none

open SvgVerif.Model.Parser SvgVerif.Model.Serializer SvgVerif.Spec.SvgPath in
def showCmdToks (c : Cmd Rat) : String :=
  let pt (p : Pt Rat) := s!"{showRat p.1} {showRat p.2}"
  let l (ch : Char) (a : Bool) := "c" ++ String.singleton (if a then ch else ch.toLower)
  match c with
  | .M a p => s!"{l 'M' a} {pt p}"
  | .L a p => s!"{l 'L' a} {pt p}"
  | .H a x => s!"{l 'H' a} {showRat x}"
  | .V a y => s!"{l 'V' a} {showRat y}"
  | .C a c1 c2 p => s!"{l 'C' a} {pt c1} {pt c2} {pt p}"
  | .Sm a c2 p => s!"{l 'S' a} {pt c2} {pt p}"
  | .Q a c1 p => s!"{l 'Q' a} {pt c1} {pt p}"
  | .T a p => s!"{l 'T' a} {pt p}"
  | .A a r rot lg sw p => s!"{l 'A' a} {pt r} {showRat rot} {showRat lg} {showRat sw} {pt p}"
  | .Z => "cZ"

open SvgVerif.Model.Serializer in
def runDToks (ws : List String) : String :=
  match splitBar ws with
  | [[us, uc, rel], segws] =>
    let segs := (" ".intercalate segws).splitOn ";" |>.map words |>.filter (· ≠ [])
    match segs.mapM parseSegWords with
    | some segs =>
      let o : Opts := ⟨us == "1", uc == "1", rel == "1"⟩
      let cs := dCmds o segs
      -- `s.lower()` in relative form also lower-cases the final Z
      let out := " ".intercalate (cs.map showCmdToks)
      if o.rel then out.replace "cZ" "cz" else out
    | none => "bad-args"
  | _ => "bad-args"

/-! C08 -/
/-- exact square root of a rational that is a perfect square (the correspondence inputs are
constructed that way); 0 otherwise -/
def ratSqrt (q : Rat) : Rat :=
  if q < 0 then 0 else
    let n := q.num.toNat
    let d := q.den
    let rn := Nat.sqrt n
    let rd := Nat.sqrt d
    if rn * rn = n ∧ rd * rd = d then (rn : Rat) / (rd : Rat) else 0

/-! C06 -/
def polyAt (co : List Rat) (t : Rat) : Rat := co.foldr (fun c acc => c + t * acc) 0
def rabs (x : Rat) : Rat := if x < 0 then -x else x

/-- `seglen err minDepth fuel a b | c0 c1 ...`: `segment_length` on the 1-D curve `Σ cᵢ tⁱ` -/
def runSegLen (ws : List String) : String :=
  match splitBar ws with
  | [[err, md, fuel, a, b], co] =>
    match parseRat? err, md.toNat?, fuel.toNat?, parseRat? a, parseRat? b, parseRats? co with
    | some err, some md, some fuel, some a, some b, some co =>
      let pt := polyAt co
      match Length.segLen pt (fun p q => rabs (p - q)) (fun x y => (x + y) / 2) err md fuel 0 a b (pt a) (pt b) with
      | some v => "value " ++ showRat v ++ " cuts " ++ toString (Length.segCuts pt (fun p q => rabs (p - q)) (fun x y => (x + y) / 2) err md fuel 0 a b (pt a) (pt b)).length
      | none => "recursion"
    | _, _, _, _, _, _ => "bad-args"
  | _ => "bad-args"

/-- `pathlen a1 b1 a2 b2 ... | T0 T1`: stub segments with `length(t0,t1) = a (t1-t0) + b (t1²-t0²)` -/
def runPathLen (ws : List String) : String :=
  match splitBar ws with
  | [ab, [T0, T1]] =>
    match parseRats? ab >>= pairUp, parseRat? T0, parseRat? T1 with
    | some ab, some T0, some T1 =>
      let seg := fun (k : Nat) (t0 t1 : Rat) =>
        match ab[k]? with
        | some (a, b) => a * (t1 - t0) + b * (t1 * t1 - t0 * t0)
        | none => 0
      match Length.pathLength (ab.map (fun p => p.1 + p.2)) seg T0 T1 with
      | .value v => "value " ++ showRat v
      | .bug => "bug"
    | _, _, _ => "bad-args"
  | _ => "bad-args"

/-! C20 -/
structure STok where
  name : String
  t0 : Option Int
  t1 : Option Int

def stokCls (a b : STok) : Smoothing.JC :=
  match a.t1, b.t0 with
  | some u, some v => if u = v then .smooth else if -u = v then .sharp else .kink
  | _, _ => .kink

/-- the fake `smoothed_joint` of the loop correspondence: 0, 1 or 2 elbow pieces -/
def stokJoint (a b : STok) : STok × List STok × STok :=
  let k := ((a.t1.getD 5) + (b.t0.getD 3)).natAbs % 3
  let e1 : STok := { name := s!"E1({a.name},{b.name})", t0 := some 7, t1 := some 8 }
  let e2 : STok := { name := s!"E2({a.name},{b.name})", t0 := some 8, t1 := some 9 }
  ({ name := s!"A({a.name},{b.name})", t0 := a.t0, t1 := some 7 },
   (if k = 0 then [] else if k = 1 then [e1] else [e1, e2]),
   { name := s!"B({a.name},{b.name})", t0 := some (7 + k), t1 := b.t1 })

def parseTan (s : String) : Option (Option Int) :=
  if s = "x" then some none else (parseInt? s).map some

def runSmooth (ws : List String) : String :=
  match splitBar ws with
  | [[closed], segs] =>
    let toks := segs.zipIdx.map (fun (w, i) =>
      match w.splitOn "," with
      | [a, b] => (parseTan a).bind (fun a => (parseTan b).map (fun b => ({ name := s!"s{i}", t0 := a, t1 := b } : STok)))
      | _ => none)
    if toks.any Option.isNone then "bad-args" else
    let toks := toks.filterMap id
    match Smoothing.smoothedPath stokCls stokJoint (closed = "1") toks with
    | .unchanged => "unchanged"
    | .empty => "empty"
    | .path out sharp => "path " ++ " ".intercalate (out.map (·.name)) ++ " | sharp " ++ " ".intercalate (sharp.map toString)
  | _ => "bad-args"

/-- `sjoint <isLine0> <isLine1>`: the composition performed by `smoothed_joint` as a Python-evaluable term over
`ll(a,b)`, `lc(a,b)`, `rev(a)`, `CH`, `CT`, `Line(p,q)`, `st(a)`, `en(a)` -/
def runSJoint (ws : List String) : String :=
  match ws with
  | [l0, l1] =>
    let o : Smoothing.JointOps (String × Bool) := {
      isLine := fun a => a.2
      rev := fun a => (s!"rev({a.1})", a.2)
      lineLine := fun a b => ((s!"ll({a.1},{b.1})[0]", true), (s!"ll({a.1},{b.1})[1]", false), (s!"ll({a.1},{b.1})[2]", true))
      lineCurve := fun a b => ((s!"lc({a.1},{b.1})[0]", true), (s!"lc({a.1},{b.1})[1]", false))
      cropHead := fun _ _ => ("CH", false)
      cropTail := fun _ _ => ("CT", false)
      lineToJoint := fun p s => (s!"Line(en({p.1}),en({s.1}))", true)
      lineFromJoint := fun p s => (s!"Line(en({s.1}),st({p.1}))", true) }
    let r := Smoothing.smoothedJoint o ("S0", l0 = "1") ("S1", l1 = "1")
    s!"({r.1.1}, [{", ".intercalate (r.2.1.map (·.1))}], {r.2.2.1})"
  | _ => "bad-args"

/-! C17 -/
open SvgVerif.Model.Flatten in
def showAff (m : Aff Rat) : String :=
  s!"{showRat m.a},{showRat m.b},{showRat m.c},{showRat m.d},{showRat m.e},{showRat m.f}"

open SvgVerif.Model.Flatten in
def affOf : List Rat → Option (Aff Rat)
  | [a, b, c, d, e, f] => some ⟨a, b, c, d, e, f⟩
  | _ => none

/-- decimal literal as accepted by Python's `float` (the subset the harness generates) -/
def parseDec (cs : List Char) : Option Rat :=
  let (neg, cs) := match cs with
    | '-' :: r => (true, r)
    | '+' :: r => (false, r)
    | _ => (false, cs)
  let ip := cs.takeWhile Char.isDigit
  let r1 := cs.dropWhile Char.isDigit
  let (fp, r2, _dot) := match r1 with
    | '.' :: r => (r.takeWhile Char.isDigit, r.dropWhile Char.isDigit, true)
    | _ => ([], r1, false)
  if ip.isEmpty && fp.isEmpty then none else
  let digits (ds : List Char) : Nat := ds.foldl (fun a c => 10 * a + (c.toNat - '0'.toNat)) 0
  let mant : Rat := (digits ip : Rat) + (digits fp : Rat) / ((10 ^ fp.length : Nat) : Rat)
  let withExp : Option Rat := match r2 with
    | [] => some mant
    | e :: r =>
      if e = 'e' || e = 'E' then
        let (eneg, r) := match r with
          | '-' :: t => (true, t)
          | '+' :: t => (false, t)
          | _ => (false, r)
        if r.isEmpty || !r.all Char.isDigit then none
        else
          let k := digits r
          some (if eneg then mant / ((10 ^ k : Nat) : Rat) else mant * ((10 ^ k : Nat) : Rat))
      else none
  withExp.map (fun v => if neg then -v else v)

def oracleIdx (a : Rat) (shift : Int) : Rat := (((a * 4).floor + shift) % 8 : Int)
def cosd (a : Rat) : Rat := oracleIdx a 0 / 8
def sind (a : Rat) : Rat := oracleIdx a 3 / 8 - 1 / 2
def tand (a : Rat) : Rat := oracleIdx a 5 / 4

open SvgVerif.Model.TransformParse in
def runPtf (ws : List String) : String :=
  match ws with
  | [enc] =>
    let s := enc.toList.map (fun c => if c = '~' then ' ' else c)
    match parseTransform parseDec cosd sind tand s with
    | .ok m => "ok " ++ showAff m
    | .valueError => "valueerror"
  | [] => "ok " ++ showAff SvgVerif.Model.Flatten.Aff.one
  | _ => "bad-args"

open SvgVerif.Model.Parser in
def zeroLen : Seg Rat → Bool
  | .line a b => a == b
  | .quad a c b => a == b && a == c
  | .cubic a c1 c2 b => a == b && a == c1 && a == c2
  | .arc a _ _ _ _ b => a == b

open SvgVerif.Spec.Shapes SvgVerif.Model.Parser in
def runShape (ws : List String) : String :=
  let opt (w : String) : Option (Option Rat) := if w = "-" then some none else (parseRat? w).map some
  let sh : Option (Shape Rat) := match ws with
    | ["rect", x, y, w, h, rx, ry] => do
        pure (.rect (← parseRat? x) (← parseRat? y) (← parseRat? w) (← parseRat? h) (← opt rx) (← opt ry))
    | ["ellipse", cx, cy, rx, ry] => do pure (.ellipse (← parseRat? cx) (← parseRat? cy) (← parseRat? rx) (← parseRat? ry))
    | ["line", a, b, c, d] => do pure (.line (← parseRat? a) (← parseRat? b) (← parseRat? c) (← parseRat? d))
    | "polyline" :: r => (parseRats? r >>= pairUp).map .polyline
    | "polygon" :: r => (parseRats? r >>= pairUp).map .polygon
    | _ => none
  match sh with
  | none => "bad-args"
  | some sh =>
    match SvgVerif.Spec.SvgPath.run (0, 0) (toCmds sh) with
    | none => "none"
    | some (segs, closed) => (s!"ok {closed} " ++ " ; ".intercalate ((segs.filter (fun s => !zeroLen s)).map showSeg)).trimAsciiEnd.toString

open SvgVerif.Model.Flatten in
/-- prefix encoding: `G id a b c d e f nS (kind id a b c d e f)^nS nK (child)^nK` -/
def parseGrp : Nat → List String → Option (Grp (Aff Rat) × List String)
  | 0, _ => none
  | fuel + 1, "G" :: id :: ws => do
    let id ← id.toNat?
    let m ← parseRats? (ws.take 6) >>= affOf
    let ws := ws.drop 6
    let nS ← ws.head? >>= String.toNat?
    let mut ws := ws.drop 1
    let mut shapes : List (Shape (Aff Rat)) := []
    for _ in List.range nS do
      let k ← ws.head? >>= String.toNat?
      let sid ← (ws.drop 1).head? >>= String.toNat?
      let sm ← parseRats? ((ws.drop 2).take 6) >>= affOf
      shapes := shapes ++ [{ kind := k, id := sid, tf := sm }]
      ws := ws.drop 8
    let nK ← ws.head? >>= String.toNat?
    ws := ws.drop 1
    let mut kids : List (Grp (Aff Rat)) := []
    for _ in List.range nK do
      let (k, rest) ← parseGrp fuel ws
      kids := kids ++ [k]
      ws := rest
    pure (.mk id m shapes kids, ws)
  | _, _ => none

open SvgVerif.Model.Flatten in
def showFlat (ps : List (Nat × Aff Rat)) : String := " ".intercalate (ps.map (fun p => s!"{p.1}:{showAff p.2}"))

open SvgVerif.Model.Flatten in
partial def findGrp (t : Nat) (g : Grp (Aff Rat)) : Option (Grp (Aff Rat)) :=
  if g.id == t then some g else g.kids.findSome? (findGrp t)

open SvgVerif.Model.Flatten in
def runFlat (ws : List String) : String :=
  match parseGrp 64 ws with
  | some (g, []) =>
    match flattenedPaths Aff.mul Aff.one (fun _ => true) (fun _ => true) g with
    | some ps => "ok " ++ showFlat ps
    | none => "fuel"
  | _ => "bad-args"

open SvgVerif.Model.Flatten in
def runFromGroup (ws : List String) : String :=
  match ws with
  | t :: rec :: "|" :: tree =>
    match t.toNat?, parseGrp 64 tree with
    | some t, some (g, []) =>
      match findGrp t g with
      | none => "notdescendant"
      | some tg =>
        match fromGroup Aff.mul Aff.one g tg (rec == "1") with
        | .paths ps => "ok " ++ showFlat ps
        | .notDescendant => "notdescendant"
        | .fuel => "fuel"
    | _, _ => "bad-args"
  | _ => "bad-args"

/-! C18 -/
open SvgVerif.Model.Doc in
/-- prefix encoding: `D name nP pid^nP nK child^nK` -/
def parseDGrp : Nat → List String → Option (DGrp × List String)
  | 0, _ => none
  | fuel + 1, "D" :: name :: ws => do
    let nP ← ws.head? >>= String.toNat?
    let ps ← ((ws.drop 1).take nP).mapM String.toNat?
    if ps.length ≠ nP then none
    let mut ws := ws.drop (1 + nP)
    let nK ← ws.head? >>= String.toNat?
    ws := ws.drop 1
    let mut kids : List DGrp := []
    for _ in List.range nK do
      let (k, rest) ← parseDGrp fuel ws
      kids := kids ++ [k]
      ws := rest
    pure (.mk name ps kids, ws)
  | _, _ => none

open SvgVerif.Model.Doc in
def parseDocOp : List String → Option Op
  | "P" :: pid :: names => pid.toNat?.map (fun p => Op.addPath names p)
  | "G" :: names => some (Op.addGroup names)
  | "R" :: nm :: parent => some (Op.rawGroup parent nm)
  | "Q" :: names => some (Op.query names)
  | _ => none

/-- split a word list at the separator `;` -/
def splitSemi (ws : List String) : List (List String) :=
  let rec go (acc : List String) (rest : List String) (out : List (List String)) : List (List String) :=
    match rest with
    | [] => (acc.reverse :: out).reverse
    | ";" :: r => go [] r (acc.reverse :: out)
    | w :: r => go (w :: acc) r out
  (go [] ws []).filter (fun l => !l.isEmpty)

open SvgVerif.Model.Doc in
def runDoc (ws : List String) : String :=
  match splitBar ws with
  | [tree, ops] =>
    match parseDGrp 64 tree, (splitSemi ops).mapM parseDocOp with
    | some (t, []), some ops =>
      match docPaths (run t ops) with
      | some ps => "ok " ++ " ".intercalate (ps.map toString) ++ " | all " ++ " ".intercalate ((allPaths (run t ops)).map toString)
          ++ " | q " ++ " ; ".intercalate ((runQueries t ops).map fun l => " ".intercalate ((l.toArray.qsort (· < ·)).toList.map toString))
      | none => "fuel"
    | _, _ => "bad-args"
  | _ => "bad-args"

/-- `wattrs d k1 v1 k2 v2 …`: the attributes `wsvg` writes for one path -/
def runWAttrs (ws : List String) : String :=
  match ws with
  | d :: rest =>
    match pairUp rest with
    | some kvs => " ".intercalate ((SvgVerif.Model.Doc.wsvgAttrs d kvs).map (fun kv => kv.1 ++ "=" ++ kv.2))
    | none => "bad-args"
  | _ => "bad-args"

/-! C11 / C12: intersection models -/
def showPairs (l : List (Rat × Rat)) : String :=
  " ; ".intercalate (l.map fun (a, b) => s!"{showRat a} {showRat b}")

def ratLe (a b : Rat × Rat) : Bool := a.1 < b.1 || (a.1 == b.1 && a.2 ≤ b.2)

def sortPairs (l : List (Rat × Rat)) : List (Rat × Rat) := (l.toArray.qsort (fun a b => ratLe a b && !(a == b))).toList

def runLineLine (args : List String) : String :=
  match parseRats? args with
  | some [a, b, c, d, e, f, g, h] =>
    showPairs (Intersect.lineLine (fun x => decide (sabs x ≤ (1 : Rat) / 100000000)) (a, b) (c, d) (e, f) (g, h))
  | _ => "bad-args"

def runHull (args : List String) : String :=
  match (splitBar args).mapM (fun ws => parseRats? ws >>= pairUp) with
  | some [sb, ob] => toString (Intersect.hullDisjoint sb ob)
  | _ => "bad-args"

def runBezLine (args : List String) : String :=
  match splitBar args with
  | [bs, ls, rs] =>
    match parseRats? bs >>= pairUp, parseRats? ls, parseRats? rs with
    | some pts, some [l0x, l0y, l1x, l1y, L], some roots =>
      showPairs (sortPairs (Intersect.bezierByLine (fun t => Intersect.dcPoint t pts.length pts) (l0x, l0y) (l1x, l1y) L roots))
    | _, _, _ => "bad-args"
  | _ => "bad-args"

def runBezInt (args : List String) : String :=
  match splitBar args with
  | [ps, b1, b2] =>
    match parseRats? ps, parseRats? b1 >>= pairUp, parseRats? b2 >>= pairUp with
    | some [tol, tolDeC, maxits], some c1, some c2 =>
      let env : Intersect.Env (List (Rat × Rat)) Rat (Rat × Rat) :=
        { bbox := Intersect.hullBox
          halve := fun c => Intersect.dcSplit ((1 : Rat) / 2) c.length c
          ceq := fun a b => a == b
          point := fun t => Intersect.dcPoint t c1.length c1
          close := fun p q => decide ((p.1 - q.1) * (p.1 - q.1) + (p.2 - q.2) * (p.2 - q.2) < tol * tol)
          tolDeC := tolDeC }
      match Intersect.bezierIntersections env 2 maxits.num.toNat c1 c2 with
      | .ok out => "ok " ++ showPairs out
      | .maxits => "maxits"
    | _, _, _ => "bad-args"
  | _ => "bad-args"

def runPhase2t (args : List String) : String :=
  match parseRats? args with
  | some [pi, theta, delta, psi] =>
    showRat (Intersect.phase2t (fun x => (x.floor : Rat)) pi 180 360 2 theta delta psi)
  | _ => "bad-args"

/-- pathint tolsq | fr1 | fr2 | lab1 | lab2 | hits (i j t1 t2 px py)* -/
def runPathInt (args : List String) : String :=
  match splitBar args with
  | [[tolsq], f1, f2, l1, l2, hs] =>
    match parseRat? tolsq, parseRats? f1, parseRats? f2, l1.mapM String.toNat?, l2.mapM String.toNat?, parseRats? hs with
    | some tolsq, some f1, some f2, some l1, some l2, some hs =>
      let rec hits : List Rat → List (Intersect.Hit Rat (Rat × Rat))
        | i :: j :: t1 :: t2 :: px :: py :: r => ⟨i.num.toNat, j.num.toNat, t1, t2, (px, py)⟩ :: hits r
        | _ => []
      let close : Rat × Rat → Rat × Rat → Bool := fun p q =>
        decide ((p.1 - q.1) * (p.1 - q.1) + (p.2 - q.2) * (p.2 - q.2) < tolsq)
      let sh : Option Rat × Nat × Rat → String := fun (T, i, t) =>
        (match T with | some T => showRat T | none => "none") ++ s!" {i} {showRat t}"
      " ; ".intercalate ((Intersect.pathIntersect close f1 f2 l1 l2 (hits hs)).map fun (a, b) => sh a ++ " " ++ sh b)
    | _, _, _, _, _, _ => "bad-args"
  | _ => "bad-args"

/-! C04: Arc._parameterize on exact rationals; `sqrt` exact where rational else (x+1)/2, `degrees(acos x)` := 90(1-x) -/
def sqrtStandin (q : Rat) : Rat :=
  if q < 0 then (q + 1) / 2 else
    let n := q.num.toNat
    let d := q.den
    let rn := Nat.sqrt n
    let rd := Nat.sqrt d
    if rn * rn = n ∧ rd * rd = d then (rn : Rat) / (rd : Rat) else (q + 1) / 2

def runArcParam (args : List String) : String :=
  match args with
  | [sx, sy, ex, ey, rx, ry, wx, wy, la, sw] =>
    match parseRats? [sx, sy, ex, ey, rx, ry, wx, wy] with
    | some [sx, sy, ex, ey, rx, ry, wx, wy] =>
      let p := ArcParam.parameterize sqrtStandin (fun x => 90 * (1 - x)) (fun x => decide (sabs x ≤ (1 : Rat) / 100000000))
        sx sy ex ey rx ry wx wy (la == "1") (sw == "1")
      showRats [p.rx, p.ry, p.cx, p.cy, p.theta, p.delta]
    | _ => "bad-args"
  | _ => "bad-args"

/-- `arcinit sx sy ex ey rx ry wx wy large sweep`: the constructor (signed radii, integer flags) -/
def runArcInit (args : List String) : String :=
  match args with
  | [sx, sy, ex, ey, rx, ry, wx, wy, la, sw] =>
    match parseRats? [sx, sy, ex, ey, rx, ry, wx, wy], parseInt? la, parseInt? sw with
    | some [sx, sy, ex, ey, rx, ry, wx, wy], some la, some sw =>
      let (p, l, s) := ArcParam.arcInit sqrtStandin (fun x => 90 * (1 - x)) (fun x => decide (sabs x ≤ (1 : Rat) / 100000000))
        sx sy ex ey rx ry wx wy la sw
      showRats [p.rx, p.ry, p.cx, p.cy, p.theta, p.delta] ++ s!" {l} {s}"
    | _, _, _ => "bad-args"
  | _ => "bad-args"

/-! C11: Arc.point_to_t on exact rationals (same stand-ins as the harness) -/
def runArcPtt (args : List String) : String :=
  match parseRats? args with
  | some [sx, sy, ex, ey, cx, cy, rx, ry, rot, theta, delta, px, py] =>
    let closeP : Rat × Rat → Rat × Rat → Bool := fun p q =>
      decide ((p.1 - q.1) * (p.1 - q.1) + (p.2 - q.2) * (p.2 - q.2) ≤ ((1 : Rat) / 1000000) * ((1 : Rat) / 1000000))
    let closeS : Rat → Rat → Bool := fun a b => decide (sabs (a - b) ≤ (1 : Rat) / 100000000 + ((1 : Rat) / 100000) * sabs b)
    match ArcPointToT.pointToT sqrtStandin (fun x => 90 * (1 - x)) (fun x => 90 * x) closeP closeS 64
        (sx, sy) (ex, ey) (cx, cy) rx ry rot theta delta (px, py) with
    | .t v => "t " ++ showRat v
    | .none => "none"
    | .valueError => "valueerror"
    | .fuel => "fuel"
  | _ => "bad-args"

/-! C14: Path.area() of a path of lines/quadratics/cubics with rational control points -/
def parseAreaSegs (ws : List String) : Option (List (Area.Seg Rat)) :=
  (splitBar ws).mapM fun g =>
    match g with
    | "L" :: r => match parseRats? r with
      | some [a, b, c, d] => some (.line (a, b) (c, d))
      | _ => none
    | "Q" :: r => match parseRats? r with
      | some [a, b, c, d, e, f] => some (.quad (a, b) (c, d) (e, f))
      | _ => none
    | "C" :: r => match parseRats? r with
      | some [a, b, c, d, e, f, g, h] => some (.cubic (a, b) (c, d) (e, f) (g, h))
      | _ => none
    | _ => none

def runPathArea (args : List String) : String :=
  match parseAreaSegs args with
  | some segs => showRat (Area.pathArea segs)
  | none => "bad-args"

/-! C15: the argument of csqrt in the singular branch of bezier_unit_tangent; control points and t as rational pairs -/
def runTanLimit (args : List String) : String :=
  match splitBar args with
  | [ps, [t]] =>
    match parseRats? ps >>= pairUp, parseRat? t with
    | some pts, some t =>
      let cpts : List (Tangent.Cx Rat) := pts.map fun (a, b) => ⟨a, b⟩
      match Tangent.tangentLimit Tangent.Cx.conj 12 cpts (⟨t, 0⟩ : Tangent.Cx Rat) with
      | .value v => s!"value {showRat v.re} {showRat v.im}"
      | .noLimit => "nolimit"
      | .fuel => "fuel"
    | _, _ => "bad-args"
  | _ => "bad-args"

/-! C08 arcs: `arcbbox startx starty endx endy cx cy rx ry phi cosphi sinphi theta delta`; the math
functions are the same exact stand-ins the Python runner installs: with `u = x/2`,
`cos x := (1-u²)/(1+u²)`, `sin x := 2u/(1+u²)`, `tan := sin/cos`, `atan y := (y/(1+|y|))·11/7`,
`pi := 22/7` -/
def standinFn : SvgVerif.Model.ArcBBox.Fn Rat :=
  let c : Rat → Rat := fun x => (1 - (x / 2) * (x / 2)) / (1 + (x / 2) * (x / 2))
  let s : Rat → Rat := fun x => 2 * (x / 2) / (1 + (x / 2) * (x / 2))
  { cos := c, sin := s, tan := fun x => s x / c x,
    atan := fun y => y / (1 + sabs y) * (11 / 7), pi := 22 / 7 }

def runArcBBox (args : List String) : String :=
  match parseRats? args with
  | some [sx, sy, ex, ey, cx, cy, rx, ry, phi, cphi, sphi, th, de] =>
    match SvgVerif.Model.ArcBBox.bbox standinFn ⟨sx, sy, ex, ey, cx, cy, rx, ry, phi, cphi, sphi, th, de⟩ with
    | some (a, b, c, d) => s!"{showRat a} {showRat b} {showRat c} {showRat d}"
    | none => "none"
  | _ => "bad-args"

/-! C04 approximations: `arcapx cubic|quad curves sx sy ex ey cx cy rx ry rotation theta delta` with the stand-ins
`radians x := x·(22/7)/180`, `cos`, `sin` as for `arcbbox`, `tan := sin/cos`, `sqrt := sqrtStandin` -/
def apxFn : SvgVerif.Model.ArcApprox.Fn Rat :=
  { radians := fun x => x * (22 / 7) / 180, cos := standinFn.cos, sin := standinFn.sin, tan := standinFn.tan,
    sqrt := sqrtStandin }

def runArcApx (args : List String) : String :=
  let shP : Rat × Rat → String := fun p => s!"{showRat p.1} {showRat p.2}"
  match args with
  | kind :: n :: rest =>
    match n.toNat?, parseRats? rest with
    | some n, some [sx, sy, ex, ey, cx, cy, rx, ry, rot, th, de] =>
      let d : SvgVerif.Model.ArcApprox.ArcData Rat := ⟨sx, sy, ex, ey, cx, cy, rx, ry, rot, th, de⟩
      if kind == "cubic" then
        " ; ".intercalate ((SvgVerif.Model.ArcApprox.asCubicCurves apxFn d n).map
          fun (a, b, c, e) => s!"{shP a} {shP b} {shP c} {shP e}")
      else
        " ; ".intercalate ((SvgVerif.Model.ArcApprox.asQuadCurves apxFn d n).map
          fun (a, b, c) => s!"{shP a} {shP b} {shP c}")
    | _, _ => "bad-args"
  | _ => "bad-args"

/-! C19 general degree: `bezn <sub> args` -/
open SvgVerif.Model.BezierN in
def runBezN (args : List String) : String :=
  let shPair : Option (List Rat × List Rat) → String
    | some (l, r) => showRats l ++ " | " ++ showRats r
    | none => "IndexError"
  match args with
  | ["nck", n, k] =>
    match n.toNat?, k.toNat? with
    | some n, some k => toString (nChooseK n k)
    | _, _ => "bad-args"
  | ["bern", n, t] =>
    match n.toNat?, parseRat? t with
    | some n, some t => showRats (bernsteinList n t)
    | _, _ => "bad-args"
  | "point" :: t :: ps =>
    match parseRat? t, parseRats? ps with
    | some t, some ps => showRat (bezierPoint ps t)
    | _, _ => "bad-args"
  | "b2p" :: o :: ps =>
    match parseRats? ps with
    | some ps => showRats (bezier2polynomial ps (o == "1"))
    | none => "bad-args"
  | "split" :: t :: ps =>
    match parseRat? t, parseRats? ps with
    | some t, some ps => shPair (splitBezier ps t)
    | _, _ => "bad-args"
  | "halve" :: ps =>
    match parseRats? ps with
    | some ps => shPair (halveBezier ps (1 / 2))
    | none => "bad-args"
  | _ => "bad-args"

def handle (cmd : String) (args : List String) : String :=
  match cmd with
  | "polyroots01" =>
    match parseRats? args >>= pairUp with
    | some rs => "ok " ++ showRats (Poly.polyroots01 rtol atol rs)
    | none => "bad-args"
  | "polyroots01_buggy" =>   -- pre-repair pipeline, kept to replay finding F16
    match parseRats? args >>= pairUp with
    | some rs =>
      let re := (rs.filter (fun r => isclose rtol atol r.2 0)).map (·.1)
      let re := re.filter (fun t => decide (0 ≤ t) && decide (t ≤ 1))
      "ok " ++ showRats (Poly.dedupBuggy (isclose rtol atol) re)
    | none => "bad-args"
  | "ratlimit" =>
    match splitBar args with
    | [f, g, [t]] =>
      match parseRats? f, parseRats? g, parseRat? t with
      | some f, some g, some t =>
        match Poly.rationalLimit (g.length + 2) f g t with
        | .value v => "value " ++ showRat v
        | .noLimit => "nolimit"
        | .fuel => "fuel"
      | _, _, _ => "bad-args"
    | _ => "bad-args"
  -- C05 -------------------------------------------------------------------
  | "calclengths" =>
    match parseRats? args with
    | some ls => let (tot, fr) := PathParam.calcLengths ls; showRat tot ++ " | " ++ showRats fr
    | none => "bad-args"
  | "T2t" =>
    match splitBar args with
    | [ls, [T]] =>
      match parseRats? ls, parseRat? T with
      | some ls, some T => showIdxT (PathParam.T2t (PathParam.calcLengths ls).2 T)
      | _, _ => "bad-args"
    | _ => "bad-args"
  | "pointidx" =>
    match splitBar args with
    | [ls, [T]] =>
      match parseRats? ls, parseRat? T with
      | some ls, some T => showIdxT (PathParam.pointIdx (PathParam.calcLengths ls).2 T)
      | _, _ => "bad-args"
    | _ => "bad-args"
  | "t2T" =>
    match splitBar args with
    | [ls, [k, t]] =>
      match parseRats? ls, k.toNat?, parseRat? t with
      | some ls, some k, some t =>
        match PathParam.t2T (PathParam.calcLengths ls).2 k t with
        | some T => showRat T
        | none => "none"
      | _, _, _ => "bad-args"
    | _ => "bad-args"
  | "subpaths" =>   -- args: s1 e1 s2 e2 ... (integer point labels)
    match (args.mapM parseInt?) >>= pairUp with
    | some segs =>
      let sp := PathParam.continuousSubpaths segs
      let cont := PathParam.isContinuous segs
      let closed := match PathParam.isClosed segs with | none => "assert" | some b => toString b
      s!"{cont} {closed} " ++ " ".intercalate (sp.map (fun p => toString p.length))
    | none => "bad-args"
  -- C09 -------------------------------------------------------------------
  | "cropped" | "cropped_buggy" =>
    match splitBar args with
    | [c :: ls, labs, [T0, T1]] =>
      match parseRats? ls, labs.mapM (·.toNat?), parseRat? T0, parseRat? T1 with
      | some ls, some labs, some T0, some T1 =>
        let fr := (PathParam.calcLengths ls).2
        let f := if cmd == "cropped" then PathOps.cropped atol rtol fr labs (some (c == "1")) T0 T1
                 else PathOps.croppedBuggy atol rtol fr labs (some (c == "1")) T0 T1
        match f with
        | .ok ps => ("ok " ++ " ".intercalate (ps.map fun p => s!"{p.idx}:{showRat p.a}:{showRat p.b}")).trimAsciiEnd.toString
        | .error .assertion => "assert"
        | .error .notClosed => "valueerror"
        | .error .bug => "bug"
      | _, _, _, _ => "bad-args"
    | _ => "bad-args"
  -- C10 -------------------------------------------------------------------
  | "tst" | "tst_open" =>     -- transform_segments_together on integer-labelled segments
    match (args.mapM parseInt?) >>= pairUp with
    | some segs =>
      -- transformed segments get fresh pairwise distinct endpoints: (2i, 2i+1)
      let tr : List (Nat × Nat) := (List.range segs.length).map fun i => (2 * i, 2 * i + 1)
      let res := if cmd == "tst" then PathOps.weld segs tr else PathOps.weldOpen segs tr
      let starts := PathOps.rot1 (res.map (·.1))
      " ".intercalate ((res.zip starts).map fun (s, nx) => if s.2 = nx then "1" else "0")
    | none => "bad-args"
  | "contained" =>
    match args with
    | [c, b, n] =>
      match n.toNat? with
      | some n => toString (Enclose.isContainedBy (c == "1") (b == "1") n)
      | none => "bad-args"
    | _ => "bad-args"
  | "tanlimit" => runTanLimit args
  | "patharea" => runPathArea args
  | "numlines" =>
    match parseRats? args with
    | some [len, chord] => toString (Enclose.numLines (fun q : Rat => q.ceil) len chord)
    | _ => "bad-args"
  | "encloses" =>
    match args with
    | [n] => match n.toNat? with
      | some n => toString (Enclose.enclosesPt n)
      | none => "bad-args"
    | _ => "bad-args"
  | "lineradial" =>
    match parseRats? args with
    | some [a, b, c, d, e, f] =>
      let r := Radial.lineRadial sqrtStandin a b c d e f
      s!"{showRat r.1.1} {showRat r.1.2} {showRat r.2.1} {showRat r.2.2}"
    | _ => "bad-args"
  | "bezradial" =>    -- 1-D stub: dist t = |c0 + c1 t + c2 t^2|; args: c0 c1 c2 | roots
    match splitBar args with
    | [[c0, c1, c2], rs] =>
      match parseRat? c0, parseRat? c1, parseRat? c2, parseRats? rs with
      | some c0, some c1, some c2, some rs =>
        let dist : Rat → Rat := fun t => sabs (c0 + c1 * t + c2 * t * t)
        match Radial.bezierRadial dist rs with
        | some (a, b) => s!"{showRat a.1} {showRat a.2} {showRat b.1} {showRat b.2}"
        | none => "none"
      | _, _, _, _ => "bad-args"
    | _ => "bad-args"
  | "pathradial" =>   -- args: quadruples dmin tmin dmax tmax per segment
    match parseRats? args with
    | some xs =>
      let rec rquads : List Rat → List ((Rat × Rat) × (Rat × Rat))
        | a :: b :: c :: d :: r => ((a, b), (c, d)) :: rquads r
        | _ => []
      let sh : Option (Rat × Rat × Nat) → String
        | none => "none"
        | some (d, t, k) => s!"{showRat d} {showRat t} {k}"
      let (mn, mx) := Radial.pathRadial (rquads xs)
      sh mn ++ " | " ++ sh mx
    | none => "bad-args"
  | "minmax" =>
    match parseRats? args with
    | some [a0, a1, a2, a3] =>
      match BBox.cubicMinmax ratSqrt a0 a1 a2 a3 with
      | some (lo, hi) => s!"{showRat lo} {showRat hi}"
      | none => "none"
    | _ => "bad-args"
  | "pathbbox" =>
    match parseRats? args with
    | some xs =>
      let rec quads : List Rat → List (Rat × Rat × Rat × Rat)
        | a :: b :: c :: d :: r => (a, b, c, d) :: quads r
        | _ => []
      match BBox.pathBbox (quads xs) with
      | some (a, b, c, d) => s!"{showRat a} {showRat b} {showRat c} {showRat d}"
      | none => "none"
    | none => "bad-args"
  | "dtoks" => runDToks args
  | "parse" => runParse false args
  | "parse_legacy" => runParse true args
  | "lex" => runLex args
  | "invseg" =>
    match parseRats? args with
    | some [L, a, sTol, maxits, s] => showIl (InvArc.invSeg (stubLen L a) sTol maxits.num.toNat s)
    | _ => "bad-args"
  | "invline" =>
    match parseRats? args with
    | some [L, s] => showIl (InvArc.invLine L s)
    | _ => "bad-args"
  | "invpath" => runInvPath args
  | "doc" => runDoc args
  | "wattrs" => runWAttrs args
  | "ptf" => runPtf args
  | "shape" => runShape args
  | "flat" => runFlat args
  | "fromgroup" => runFromGroup args
  | "smooth" => runSmooth args
  | "arcapx" => runArcApx args
  | "arcbbox" => runArcBBox args
  | "bezn" => runBezN args
  | "sjoint" => runSJoint args
  | "seglen" => runSegLen args
  | "pathlen" => runPathLen args
  | "stall" => runStall false args
  | "stall_buggy" => runStall true args
  | "cubcache" => runCubCache false args
  | "cubcache_buggy" => runCubCache true args
  | "arccache" => runArcCache args
  | "segheap" => runSegHeap args
  | "arcparam" => runArcParam args
  | "arcinit" => runArcInit args
  | "arcptt" => runArcPtt args
  | "lineline" => runLineLine args
  | "hull" => runHull args
  | "bezline" => runBezLine args
  | "bezint" => runBezInt args
  | "phase2t" => runPhase2t args
  | "pathint" => runPathInt args
  | "hist" => runHistory false args
  | "twinhist" => runTwinHistory args
  | "hist_buggy_setter" => runHistory true args
  | _ => "bad-op"

partial def loop (h : IO.FS.Stream) (out : IO.FS.Stream) : IO Unit := do
  let line ← h.getLine
  if line.isEmpty then return ()
  let ws := words (line.trimAscii.toString)
  match ws with
  | [] => out.putStrLn "empty"
  | cmd :: args => out.putStrLn (handle cmd args)
  loop h out

def main : IO Unit := do
  loop (← IO.getStdin) (← IO.getStdout)
