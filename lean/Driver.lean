import SvgVerif.Model.Proto
import SvgVerif.Model.Poly
import SvgVerif.Model.PathParam
import SvgVerif.Model.PathOps
/-! Correspondence driver: one operation per input line, one canonical result per
output line.  Run as `lake env lean --run Driver.lean < ops.txt`.  The Python
harness feeds the same operations to the real svgpathtools code and diffs. -/
open SvgVerif.Model SvgVerif.Model.Proto

def showIdxT : Option (Nat × Rat) → String
  | none => "none"
  | some (k, t) => s!"{k} {showRat t}"

def rtol : Rat := 1 / 100000
def atol : Rat := 1 / 100000000

def handle (cmd : String) (args : List String) : String :=
  match cmd with
  | "polyroots01" =>
    match parseRats? args >>= pairUp with
    | some rs => "ok " ++ showRats (Poly.polyroots01 rtol atol rs)
    | none => "bad-args"
  | "polyroots01_buggy" =>   -- pre-repair pipeline, kept to replay finding F16
    match parseRats? args >>= pairUp with
    | some rs =>
      let re := (rs.filter (fun r => isclose rtol atol r.2 0)).map (·.1)
      let re := re.filter (fun t => decide (0 ≤ t) && decide (t ≤ 1))
      "ok " ++ showRats (Poly.dedupBuggy (isclose rtol atol) re)
    | none => "bad-args"
  | "ratlimit" =>
    match splitBar args with
    | [f, g, [t]] =>
      match parseRats? f, parseRats? g, parseRat? t with
      | some f, some g, some t =>
        match Poly.rationalLimit (g.length + 2) f g t with
        | .value v => "value " ++ showRat v
        | .noLimit => "nolimit"
        | .fuel => "fuel"
      | _, _, _ => "bad-args"
    | _ => "bad-args"
  -- C05 -------------------------------------------------------------------
  | "calclengths" =>
    match parseRats? args with
    | some ls => let (tot, fr) := PathParam.calcLengths ls; showRat tot ++ " | " ++ showRats fr
    | none => "bad-args"
  | "T2t" =>
    match splitBar args with
    | [ls, [T]] =>
      match parseRats? ls, parseRat? T with
      | some ls, some T => showIdxT (PathParam.T2t (PathParam.calcLengths ls).2 T)
      | _, _ => "bad-args"
    | _ => "bad-args"
  | "pointidx" =>
    match splitBar args with
    | [ls, [T]] =>
      match parseRats? ls, parseRat? T with
      | some ls, some T => showIdxT (PathParam.pointIdx (PathParam.calcLengths ls).2 T)
      | _, _ => "bad-args"
    | _ => "bad-args"
  | "t2T" =>
    match splitBar args with
    | [ls, [k, t]] =>
      match parseRats? ls, k.toNat?, parseRat? t with
      | some ls, some k, some t =>
        match PathParam.t2T (PathParam.calcLengths ls).2 k t with
        | some T => showRat T
        | none => "none"
      | _, _, _ => "bad-args"
    | _ => "bad-args"
  | "subpaths" =>   -- args: s1 e1 s2 e2 ... (integer point labels)
    match (args.mapM parseInt?) >>= pairUp with
    | some segs =>
      let sp := PathParam.continuousSubpaths segs
      let cont := PathParam.isContinuous segs
      let closed := match PathParam.isClosed segs with | none => "assert" | some b => toString b
      s!"{cont} {closed} " ++ " ".intercalate (sp.map (fun p => toString p.length))
    | none => "bad-args"
  -- C09 -------------------------------------------------------------------
  | "cropped" | "cropped_buggy" =>
    match splitBar args with
    | [c :: ls, labs, [T0, T1]] =>
      match parseRats? ls, labs.mapM (·.toNat?), parseRat? T0, parseRat? T1 with
      | some ls, some labs, some T0, some T1 =>
        let fr := (PathParam.calcLengths ls).2
        let f := if cmd == "cropped" then PathOps.cropped atol rtol fr labs (some (c == "1")) T0 T1
                 else PathOps.croppedBuggy atol rtol fr labs (some (c == "1")) T0 T1
        match f with
        | .ok ps => ("ok " ++ " ".intercalate (ps.map fun p => s!"{p.idx}:{showRat p.a}:{showRat p.b}")).trimAsciiEnd.toString
        | .error .assertion => "assert"
        | .error .notClosed => "valueerror"
        | .error .bug => "bug"
      | _, _, _, _ => "bad-args"
    | _ => "bad-args"
  -- C10 -------------------------------------------------------------------
  | "tst" | "tst_open" =>     -- transform_segments_together on integer-labelled segments
    match (args.mapM parseInt?) >>= pairUp with
    | some segs =>
      -- transformed segments get fresh pairwise distinct endpoints: (2i, 2i+1)
      let tr : List (Nat × Nat) := (List.range segs.length).map fun i => (2 * i, 2 * i + 1)
      let res := if cmd == "tst" then PathOps.weld segs tr else PathOps.weldOpen segs tr
      let starts := PathOps.rot1 (res.map (·.1))
      " ".intercalate ((res.zip starts).map fun (s, nx) => if s.2 = nx then "1" else "0")
    | none => "bad-args"
  | _ => "bad-op"

partial def loop (h : IO.FS.Stream) (out : IO.FS.Stream) : IO Unit := do
  let line ← h.getLine
  if line.isEmpty then return ()
  let ws := words (line.trimAscii.toString)
  match ws with
  | [] => out.putStrLn "empty"
  | cmd :: args => out.putStrLn (handle cmd args)
  loop h out

def main : IO Unit := do
  loop (← IO.getStdin) (← IO.getStdout)
