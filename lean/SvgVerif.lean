import SvgVerif.Audit
